// Package trace observes gogreement's analyzers without touching their source:
// an analysis.Analyzer is a value with public fields, so Wrap replaces a.Run by
// a function that logs Start / Export / Import / End events (NDJSON, one line
// per event, appended under a mutex with a per-process sequence number) around
// the original Run, and optionally blocks at Start and End until a prescribed
// schedule says it is that action's turn (a scheduler gate for replaying
// TLC-chosen interleavings into the real parallel driver).
package trace

import (
	"crypto/sha1"
	"encoding/hex"
	"encoding/json"
	"fmt"
	"go/types"
	"os"
	"reflect"
	"sort"
	"strings"
	"sync"
	"time"

	"golang.org/x/tools/go/analysis"
)

type Event struct {
	Ev      string   `json:"ev"`
	Pid     int      `json:"pid"`
	Seq     int      `json:"seq"`
	A       string   `json:"a,omitempty"`
	P       string   `json:"p,omitempty"`
	Q       string   `json:"q,omitempty"`
	Imports []string `json:"imports,omitempty"`
	Found   *bool    `json:"found,omitempty"`
	Digest  string   `json:"digest,omitempty"`
	Res     string   `json:"res,omitempty"`
	NDiags  *int     `json:"ndiags,omitempty"`
	Err     string   `json:"err,omitempty"`
	ID      string   `json:"id,omitempty"`
}

type Tracer struct {
	mu       sync.Mutex
	cond     *sync.Cond
	f        *os.File
	seq      int
	schedule []string
	inSched  map[string]bool
	next     int
	Stall    time.Duration
	Filter   func(pkgPath string) bool // which packages are traced / gated (nil = all)
}

// New creates a tracer writing to path (O_APPEND, shared by all processes of a run).
// schedulePath, if not empty, names a file with one token per line ("S:analyzer@pkg" / "E:analyzer@pkg").
func New(path, schedulePath string) (*Tracer, error) {
	t := &Tracer{Stall: 30 * time.Second}
	t.cond = sync.NewCond(&t.mu)
	if path != "" {
		f, err := os.OpenFile(path, os.O_APPEND|os.O_CREATE|os.O_WRONLY, 0o644)
		if err != nil {
			return nil, err
		}
		t.f = f
	}
	if schedulePath != "" {
		if err := t.LoadSchedule(schedulePath); err != nil {
			return nil, err
		}
	}
	return t, nil
}

func (t *Tracer) LoadSchedule(path string) error {
	data, err := os.ReadFile(path)
	if err != nil {
		return err
	}
	var toks []string
	for _, l := range strings.Split(string(data), "\n") {
		if l = strings.TrimSpace(l); l != "" {
			toks = append(toks, l)
		}
	}
	t.SetSchedule(toks)
	return nil
}

func (t *Tracer) SetSchedule(toks []string) {
	t.mu.Lock()
	defer t.mu.Unlock()
	t.schedule = toks
	t.inSched = map[string]bool{}
	for _, s := range toks {
		t.inSched[s] = true
	}
	t.next = 0
	t.cond.Broadcast()
}

// Remaining reports how many schedule tokens were not consumed.
func (t *Tracer) Remaining() int {
	t.mu.Lock()
	defer t.mu.Unlock()
	return len(t.schedule) - t.next
}

func (t *Tracer) Emit(e Event) {
	t.mu.Lock()
	defer t.mu.Unlock()
	t.emitLocked(e)
}

func (t *Tracer) emitLocked(e Event) {
	if t.f == nil {
		return
	}
	t.seq++
	e.Seq = t.seq
	e.Pid = os.Getpid()
	b, _ := json.Marshal(e)
	b = append(b, '\n')
	_, _ = t.f.Write(b)
}

// gate blocks until tok is the next token of the schedule, then consumes it and emits e
// (under the same lock, so the trace order is the schedule order). Tokens that are not
// part of the schedule pass immediately.
func (t *Tracer) gate(tok string, e Event) {
	t.mu.Lock()
	defer t.mu.Unlock()
	if t.inSched[tok] {
		deadline := time.Now().Add(t.Stall)
		for t.next < len(t.schedule) && t.schedule[t.next] != tok {
			if time.Now().After(deadline) {
				t.emitLocked(Event{Ev: "Stall", A: tok})
				fmt.Fprintf(os.Stderr, "verif trace: schedule stalled waiting for %s (next is %s)\n", tok, t.schedule[t.next])
				os.Exit(97)
			}
			// wake up periodically to check the deadline
			go func() { time.Sleep(200 * time.Millisecond); t.cond.Broadcast() }()
			t.cond.Wait()
		}
		if t.next < len(t.schedule) {
			t.next++
		}
		t.emitLocked(e)
		t.cond.Broadcast()
		return
	}
	t.emitLocked(e)
}

// Wrap installs the observing Run on every analyzer (once per analyzer value).
func (t *Tracer) Wrap(all []*analysis.Analyzer) {
	for _, a := range all {
		a := a
		orig := a.Run
		a.Run = func(pass *analysis.Pass) (any, error) {
			pkg := pass.Pkg.Path()
			if t.Filter != nil && !t.Filter(pkg) {
				return orig(pass)
			}
			key := a.Name + "@" + pkg
			var imps []string
			for _, im := range pass.Pkg.Imports() {
				if t.Filter == nil || t.Filter(im.Path()) {
					imps = append(imps, im.Path())
				}
			}
			sort.Strings(imps)
			t.gate("S:"+key, Event{Ev: "Start", A: a.Name, P: pkg, Imports: imps})
			p2 := *pass
			if pass.ExportPackageFact != nil {
				p2.ExportPackageFact = func(f analysis.Fact) {
					t.Emit(Event{Ev: "Export", A: a.Name, P: pkg, Digest: Digest(f)})
					pass.ExportPackageFact(f)
				}
			}
			if pass.ImportPackageFact != nil {
				p2.ImportPackageFact = func(q *types.Package, f analysis.Fact) bool {
					ok := pass.ImportPackageFact(q, f)
					if t.Filter != nil && !t.Filter(q.Path()) {
						return ok
					}
					e := Event{Ev: "Import", A: a.Name, P: pkg, Q: q.Path(), Found: &ok}
					if ok {
						e.Digest = Digest(f)
					}
					t.Emit(e)
					return ok
				}
			}
			n := 0
			p2.Report = func(d analysis.Diagnostic) { n++; pass.Report(d) }
			res, err := orig(&p2)
			e := Event{Ev: "End", A: a.Name, P: pkg, NDiags: &n, Res: resultDigest(a.Name, res)}
			if err != nil {
				e.Err = err.Error()
			}
			t.gate("E:"+key, e)
			return res, err
		}
	}
}

func resultDigest(name string, res any) string {
	switch name {
	case "config":
		return canon(reflect.ValueOf(res))
	case "annotationreader":
		return Digest(res)
	}
	return ""
}

// Digest is a canonical digest of a value by a reflect walk that includes unexported
// fields and does not distinguish nil from empty slices / maps (gob does not either).
func Digest(v any) string {
	s := canon(reflect.ValueOf(v))
	h := sha1.Sum([]byte(s))
	return hex.EncodeToString(h[:8])
}

func canon(v reflect.Value) string {
	if !v.IsValid() {
		return "nil"
	}
	switch v.Kind() {
	case reflect.Pointer, reflect.Interface:
		if v.IsNil() {
			return "nil"
		}
		return canon(v.Elem())
	case reflect.Struct:
		var sb strings.Builder
		sb.WriteString("{")
		for i := 0; i < v.NumField(); i++ {
			sb.WriteString(v.Type().Field(i).Name)
			sb.WriteString(":")
			sb.WriteString(canon(v.Field(i)))
			sb.WriteString(";")
		}
		sb.WriteString("}")
		return sb.String()
	case reflect.Slice, reflect.Array:
		var sb strings.Builder
		sb.WriteString("[")
		for i := 0; i < v.Len(); i++ {
			sb.WriteString(canon(v.Index(i)))
			sb.WriteString(",")
		}
		sb.WriteString("]")
		return sb.String()
	case reflect.Map:
		keys := v.MapKeys()
		strs := make([]string, len(keys))
		for i, k := range keys {
			strs[i] = canon(k) + "=>" + canon(v.MapIndex(k))
		}
		sort.Strings(strs)
		return "map[" + strings.Join(strs, ",") + "]"
	case reflect.String:
		return fmt.Sprintf("%q", v.String())
	case reflect.Bool:
		return fmt.Sprint(v.Bool())
	case reflect.Int, reflect.Int8, reflect.Int16, reflect.Int32, reflect.Int64:
		return fmt.Sprint(v.Int())
	case reflect.Uint, reflect.Uint8, reflect.Uint16, reflect.Uint32, reflect.Uint64, reflect.Uintptr:
		return fmt.Sprint(v.Uint())
	case reflect.Float32, reflect.Float64:
		return fmt.Sprint(v.Float())
	}
	return "?" + v.Kind().String()
}
