package main

// Replay of ReporterCache.tla histories: one reporting.Reporter renders a sequence of diagnostics; every message must
// show the window the specification gives and must be byte-identical to what a fresh Reporter renders for the same
// diagnostic; ReadFile is called as often as the specification says (supports C19).

import (
	"bufio"
	"encoding/json"
	"errors"
	"fmt"
	"go/token"
	"os"
	"strconv"
	"strings"

	"golang.org/x/tools/go/analysis"

	"github.com/a14e/gogreement/src/reporting"
)

func init() {
	commands["reporter-seq-replay"] = reporterSeqReplay
}

type rsReport struct {
	F  string `json:"f"`
	C  string `json:"c"`
	L  int    `json:"l"`
	Lo int    `json:"lo"`
	Hi int    `json:"hi"`
}

type rsState struct {
	N         int        `json:"n"`
	BReadable bool       `json:"bReadable"`
	Hist      []rsReport `json:"hist"`
	ReadsA    int        `json:"readsA"`
	ReadsB    int        `json:"readsB"`
}

// line 2 of file "a" is 600 bytes long (every 12-byte window of it is unique, see linePattern)
func rsLine(name string, i int) string {
	if name == "a" && i == 2 {
		return linePattern(600, "ascii")
	}
	return fmt.Sprintf("%s line %d", name, i)
}

func rsContent(name string, n int) string {
	var b strings.Builder
	for i := 1; i <= n; i++ {
		b.WriteString(rsLine(name, i))
		b.WriteString("\n")
	}
	return b.String()
}

func reporterSeqReplay(args []string) int {
	const parsed = 12 // the files as the parser saw them (positions exist for every line that is reported)
	sc := bufio.NewScanner(os.Stdin)
	sc.Buffer(make([]byte, 1<<20), 1<<20)
	n, renders, badLines := 0, 0, 0
	nReads, nOther := 0, 0
	var bad []map[string]any
	for sc.Scan() {
		line := strings.TrimSpace(sc.Text())
		if strings.HasPrefix(line, "\"") {
			if u, err := strconv.Unquote(line); err == nil {
				line = u
			}
		}
		i := strings.Index(line, "@E ")
		if i < 0 {
			continue
		}
		var st rsState
		if err := json.Unmarshal([]byte(line[i+3:]), &st); err != nil {
			badLines++
			continue
		}
		n++
		fset := token.NewFileSet()
		files := map[string]*token.File{}
		disk := map[string]string{"/vfs/a.go": rsContent("a", st.N)}
		if st.BReadable {
			disk["/vfs/b.go"] = rsContent("b", 2)
		}
		for _, name := range []string{"a", "b"} {
			src := rsContent(name, parsed)
			tf := fset.AddFile("/vfs/"+name+".go", -1, len(src))
			tf.SetLinesForContent([]byte(src))
			files[name] = tf
		}
		reads := map[string]int{}
		mkPass := func(count bool, out *[]string) *analysis.Pass {
			return &analysis.Pass{
				Fset: fset,
				ReadFile: func(name string) ([]byte, error) {
					if count {
						reads[name]++
					}
					c, ok := disk[name]
					if !ok {
						return nil, errors.New("unreadable")
					}
					return []byte(c), nil
				},
				Report: func(d analysis.Diagnostic) { *out = append(*out, d.Message) },
			}
		}
		var msgs []string
		rep := reporting.NewReporter(mkPass(true, &msgs), nil)
		fail := func(k int, what string, exp, got any) {
			// mismatches in the number of ReadFile calls (outside C19's statement) must not crowd out the others
			isReads := strings.HasPrefix(what, "ReadFile calls")
			if (isReads && nReads < 5) || (!isReads && nOther < 10) {
				if isReads {
					nReads++
				} else {
					nOther++
				}
				bad = append(bad, map[string]any{"n": st.N, "bReadable": st.BReadable, "history": st.Hist, "report": k + 1, "what": what, "expected": exp, "observed": got})
			}
		}
		for k, r := range st.Hist {
			pos := files[r.F].LineStart(r.L)
			switch r.C {
			case "mid":
				pos += 300
			case "tail":
				pos += 590
			}
			before := len(msgs)
			func() {
				defer func() {
					if p := recover(); p != nil {
						fail(k, "panic", "a message", fmt.Sprint(p))
					}
				}()
				rep.ReportViolation(exViolation{pos})
			}()
			renders++
			if len(msgs) != before+1 {
				fail(k, "number of messages", 1, len(msgs)-before)
				break
			}
			msg := msgs[len(msgs)-1]
			lo, hi := 0, 0
			for _, ml := range strings.Split(msg, "\n") {
				if m := exLineRe.FindStringSubmatch(ml); m != nil {
					var num int
					fmt.Sscan(m[1], &num)
					want := rsLine(r.F, num)
					if len(want) <= 200 && m[2] != want {
						fail(k, "text of an excerpt line", want, m[2])
					}
					if lo == 0 || num < lo {
						lo = num
					}
					if num > hi {
						hi = num
					}
				}
			}
			if lo != r.Lo || hi != r.Hi {
				fail(k, "window", []int{r.Lo, r.Hi}, []int{lo, hi})
			}
			// the same diagnostic through a fresh reporter
			var fresh []string
			reporting.NewReporter(mkPass(false, &fresh), nil).ReportViolation(exViolation{pos})
			if len(fresh) != 1 || fresh[0] != msg {
				fail(k, "message differs from the one a fresh reporter renders", fresh, msg)
			}
		}
		if reads["/vfs/a.go"] != st.ReadsA || reads["/vfs/b.go"] != st.ReadsB {
			fail(len(st.Hist)-1, "ReadFile calls (a, b) [not part of the rendered message]", []int{st.ReadsA, st.ReadsB}, []int{reads["/vfs/a.go"], reads["/vfs/b.go"]})
		}
	}
	_ = json.NewEncoder(os.Stdout).Encode(map[string]any{"histories": n, "renders": renders, "bad_lines": badLines, "mismatches": bad})
	if badLines > 0 || n == 0 {
		return 2
	}
	if len(bad) > 0 {
		return 1
	}
	return 0
}
