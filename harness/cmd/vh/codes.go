package main

// Conformance of src/codes/codes.go with the table of Codes.tla (printed by MCCodes.tla), supports C16 / C17.

import (
	"bufio"
	"encoding/json"
	"fmt"
	"os"
	"slices"
	"sort"
	"strconv"
	"strings"

	"github.com/a14e/gogreement/src/codes"
)

func init() {
	commands["codes-check"] = codesCheck
}

func codesCheck(args []string) int {
	var table struct {
		Hier  map[string][]string `json:"hier"`
		Cat   map[string]string   `json:"cat"`
		Doc   map[string]string   `json:"doc"`
		Codes map[string][]string `json:"codes"`
	}
	sc := bufio.NewScanner(os.Stdin)
	sc.Buffer(make([]byte, 1<<20), 1<<20)
	found := false
	for sc.Scan() {
		line := strings.TrimSpace(sc.Text())
		if strings.HasPrefix(line, "\"") {
			if u, err := strconv.Unquote(line); err == nil {
				line = u
			}
		}
		if i := strings.Index(line, "@E "); i >= 0 {
			if err := json.Unmarshal([]byte(line[i+3:]), &table); err != nil {
				fmt.Fprintln(os.Stderr, "bad table:", err)
				return 2
			}
			found = true
		}
	}
	if !found || len(table.Hier) == 0 {
		fmt.Fprintln(os.Stderr, "no table on stdin")
		return 2
	}
	var bad []map[string]string
	add := func(kind, text string) { bad = append(bad, map[string]string{"kind": kind, "text": text}) }
	n := 0
	for c, want := range table.Hier {
		var got []string
		for x := range codes.GetCodesForCheck(c) {
			got = append(got, x)
		}
		n++
		if c == "ALL" {
			// the specification's Hier("ALL") = <<ALL, ALL>>; the implementation may yield ALL once or twice
			if !(slices.Equal(got, want) || slices.Equal(got, []string{"ALL"})) {
				add("hier", fmt.Sprintf("GetCodesForCheck(%q) = %v, specification %v", c, got, want))
			}
			continue
		}
		if !slices.Equal(got, want) {
			gs, ws := append([]string(nil), got...), append([]string(nil), want...)
			sort.Strings(gs)
			sort.Strings(ws)
			kind := "hier"
			if slices.Equal(slices.Compact(gs), slices.Compact(ws)) {
				kind = "order" // the same tokens in another order: the decision is the same
			}
			add(kind, fmt.Sprintf("GetCodesForCheck(%q) = %v, specification %v", c, got, want))
		}
	}
	for c, page := range table.Doc {
		n++
		want := "https://a14e.github.io/gogreement/" + page
		if got := codes.GetDocumentationURL(c); got != want {
			add("doc", fmt.Sprintf("GetDocumentationURL(%q) = %q, specification %q", c, got, want))
		}
	}
	for cat, want := range table.Codes {
		n++
		var got []string
		for _, c := range codes.CodesByCategory[cat] {
			got = append(got, c.ID)
			if c.Description == "" {
				add("description", "code "+c.ID+" has no description")
			}
		}
		sort.Strings(got)
		w := append([]string(nil), want...)
		sort.Strings(w)
		if !slices.Equal(got, w) {
			add("table", fmt.Sprintf("CodesByCategory[%q] = %v, specification %v", cat, got, w))
		}
	}
	n++
	if len(codes.CodesByCategory) != len(table.Codes) {
		add("table", fmt.Sprintf("CodesByCategory has %d categories, specification %d", len(codes.CodesByCategory), len(table.Codes)))
	}
	_ = json.NewEncoder(os.Stdout).Encode(map[string]any{"comparisons": n, "mismatches": bad})
	if len(bad) > 0 {
		return 1
	}
	return 0
}
