package main

// C16: replay of IgnoreSet.tla states into the real util.IgnoreSet, and
// recording of random histories of the real structure for IgnoreSetTrace.tla.

import (
	"bufio"
	"encoding/json"
	"flag"
	"fmt"
	"go/token"
	"math/rand"
	"os"
	"runtime"
	"sort"
	"strconv"
	"strings"
	"sync"

	"github.com/a14e/gogreement/src/ignore"
	"github.com/a14e/gogreement/src/util"
)

func init() {
	commands["ignoreset-replay"] = ignoresetReplay
	commands["ignoreset-record"] = ignoresetRecord
}

type isOp struct {
	Global bool     `json:"g"`
	Codes  []string `json:"codes"`
	S      int      `json:"s"`
	E      int      `json:"e"`
}

func applyOp(s *util.IgnoreSet, op isOp) {
	if op.Global {
		s.AddModuleIgnore(append([]string(nil), op.Codes...))
		return
	}
	s.Add(&ignore.IgnoreAnnotation{
		Codes:    append([]string(nil), op.Codes...),
		StartPos: token.Pos(op.S),
		EndPos:   token.Pos(op.E),
	})
}

func parseIntSeq(s string) ([]int, error) {
	s = strings.TrimSpace(s)
	s = strings.TrimPrefix(s, "<<")
	s = strings.TrimSuffix(s, ">>")
	s = strings.TrimSpace(s)
	if s == "" {
		return nil, nil
	}
	parts := strings.Split(s, ",")
	out := make([]int, len(parts))
	for i, p := range parts {
		v, err := strconv.Atoi(strings.TrimSpace(p))
		if err != nil {
			return nil, err
		}
		out[i] = v
	}
	return out, nil
}

// permutations calls f with every distinct ordering of ids.
func permutations(ids []int, f func([]int)) {
	a := append([]int(nil), ids...)
	sort.Ints(a)
	for {
		f(a)
		// next lexicographic permutation
		i := len(a) - 2
		for i >= 0 && a[i] >= a[i+1] {
			i--
		}
		if i < 0 {
			return
		}
		j := len(a) - 1
		for a[j] <= a[i] {
			j--
		}
		a[i], a[j] = a[j], a[i]
		for l, r := i+1, len(a)-1; l < r; l, r = l+1, r-1 {
			a[l], a[r] = a[r], a[l]
		}
	}
}

type isMismatch struct {
	Ops      []isOp `json:"ops"`
	Code     string `json:"code"`
	Pos      int    `json:"pos"`
	Expected bool   `json:"expected"`
	Observed bool   `json:"observed"`
	// the queries that were asked on the same set before this one (in order): Contains must be a pure function of the
	// collection, so the replay first asks the query alone and, if that agrees, again after these
	QCodes []string `json:"qcodes,omitempty"`
	MaxPos int      `json:"maxpos,omitempty"`
	K      int      `json:"k,omitempty"`
}

func ignoresetReplay(args []string) int {
	fs := flag.NewFlagSet("ignoreset-replay", flag.ExitOnError)
	tokens := fs.String("tokens", "", "comma separated token alphabet (TokSeq)")
	qcodes := fs.String("qcodes", "", "comma separated query codes (QCodeSeq)")
	maxPos := fs.Int("maxpos", 5, "MaxPos")
	allOrders := fs.Bool("all-orders", true, "replay every distinct insertion order of each state")
	replay := fs.String("replay", "", "replay one history from a JSON file instead of stdin")
	_ = fs.Parse(args)

	if *replay != "" {
		return ignoresetReplayOne(*replay)
	}

	tok := strings.Split(*tokens, ",")
	qc := strings.Split(*qcodes, ",")
	stride := *maxPos**maxPos + 1
	decode := func(id int) isOp {
		t := tok[id/stride]
		r := id % stride
		if r == 0 {
			return isOp{Global: true, Codes: []string{t}}
		}
		s := (r-1) / *maxPos + 1
		e := (r-1)%*maxPos + 1
		return isOp{Codes: []string{t}, S: s, E: e}
	}
	nq := len(qc) * (*maxPos + 2)

	type job struct {
		ids  []int
		bits []int
	}
	jobs := make(chan job, 1024)
	var mu sync.Mutex
	var states, histories, queries, trueAnswers int64
	var mismatches []isMismatch
	var samples []map[string]any
	var wg sync.WaitGroup
	for w := 0; w < runtime.NumCPU(); w++ {
		wg.Add(1)
		go func() {
			defer wg.Done()
			var lh, lq, lt, ls int64
			var lm []isMismatch
			for j := range jobs {
				ls++
				for _, b := range j.bits {
					if b == 1 {
						lt++
					}
				}
				run := func(order []int) {
					lh++
					var set *util.IgnoreSet
					set = &util.IgnoreSet{}
					ops := make([]isOp, len(order))
					for i, id := range order {
						ops[i] = decode(id)
						applyOp(set, ops[i])
					}
					for k := 0; k < nq; k++ {
						c := qc[k/(*maxPos+2)]
						p := k % (*maxPos + 2)
						got := set.Contains(c, token.Pos(p))
						lq++
						if got != (j.bits[k] == 1) && len(lm) < 20 {
							lm = append(lm, isMismatch{Ops: ops, Code: c, Pos: p, Expected: j.bits[k] == 1, Observed: got, QCodes: qc, MaxPos: *maxPos, K: k})
						}
					}
				}
				if *allOrders {
					permutations(j.ids, run)
				} else {
					run(j.ids)
				}
			}
			mu.Lock()
			states += ls
			histories += lh
			queries += lq
			trueAnswers += lt
			mismatches = append(mismatches, lm...)
			mu.Unlock()
		}()
	}

	// the nil set and the zero value never suppress
	{
		var nilSet *util.IgnoreSet
		zero := &util.IgnoreSet{}
		for _, c := range qc {
			for p := 0; p <= *maxPos+1; p++ {
				if nilSet.Contains(c, token.Pos(p)) || zero.Contains(c, token.Pos(p)) {
					mismatches = append(mismatches, isMismatch{Code: c, Pos: p, Expected: false, Observed: true})
				}
			}
		}
	}

	sc := bufio.NewScanner(os.Stdin)
	sc.Buffer(make([]byte, 1<<20), 1<<20)
	bad := 0
	for sc.Scan() {
		line := sc.Text()
		i := strings.Index(line, "@E ")
		if i < 0 {
			continue
		}
		line = strings.TrimSuffix(strings.TrimSpace(line[i+3:]), "\"")
		parts := strings.SplitN(line, ";", 2)
		if len(parts) != 2 {
			bad++
			continue
		}
		ids, err1 := parseIntSeq(parts[0])
		bits, err2 := parseIntSeq(parts[1])
		if err1 != nil || err2 != nil || len(bits) != nq {
			bad++
			continue
		}
		if len(samples) < 3 && len(ids) >= 2 {
			ops := make([]isOp, len(ids))
			for i, id := range ids {
				ops[i] = decode(id)
			}
			samples = append(samples, map[string]any{"ops": ops, "expected_bits": bits})
		}
		jobs <- job{ids, bits}
	}
	close(jobs)
	wg.Wait()
	out := map[string]any{
		"states": states, "histories": histories, "queries": queries,
		"true_answers": trueAnswers, "bad_lines": bad,
		"mismatches": mismatches, "samples": samples,
	}
	_ = json.NewEncoder(os.Stdout).Encode(out)
	if bad > 0 {
		return 2
	}
	if len(mismatches) > 0 {
		return 1
	}
	return 0
}

// ignoresetReplayOne re-runs one recorded mismatch (replay file).
func ignoresetReplayOne(path string) int {
	data, err := os.ReadFile(path)
	if err != nil {
		fmt.Fprintln(os.Stderr, err)
		return 2
	}
	var m isMismatch
	if err := json.Unmarshal(data, &m); err != nil {
		fmt.Fprintln(os.Stderr, err)
		return 2
	}
	set := &util.IgnoreSet{}
	for _, op := range m.Ops {
		applyOp(set, op)
	}
	got := set.Contains(m.Code, token.Pos(m.Pos))
	fmt.Printf("{\"observed\":%v,\"expected\":%v}\n", got, m.Expected)
	if got != m.Expected {
		return 1
	}
	if len(m.QCodes) > 0 {
		// in context: the same set, the same earlier queries in the same order, then the query
		set2 := &util.IgnoreSet{}
		for _, op := range m.Ops {
			applyOp(set2, op)
		}
		for k := 0; k < m.K; k++ {
			set2.Contains(m.QCodes[k/(m.MaxPos+2)], token.Pos(k%(m.MaxPos+2)))
		}
		got2 := set2.Contains(m.Code, token.Pos(m.Pos))
		fmt.Printf("{\"observed_after_%d_earlier_queries\":%v,\"expected\":%v}\n", m.K, got2, m.Expected)
		if got2 != m.Expected {
			return 1
		}
	}
	return 0
}

// ignoresetRecord drives the real structure with seeded random histories
// (longer, wider ranges, multi-token markers, inverted ranges) and writes an
// NDJSON trace: Reset / Add / AddModule / Contains(ans).
func ignoresetRecord(args []string) int {
	fs := flag.NewFlagSet("ignoreset-record", flag.ExitOnError)
	seed := fs.Int64("seed", 1, "seed")
	n := fs.Int("n", 100, "number of histories")
	maxPos := fs.Int("maxpos", 40, "positions 0..maxpos")
	tokens := fs.String("tokens", "ALL,IMM,IMM01,IMM02,CTOR,CTOR01,TONL,TONL01,PKGO02,IMPL03,UNK", "token alphabet")
	qcodes := fs.String("qcodes", "IMM01,IMM02,IMM03,CTOR01,CTOR02,CTOR,TONL01,TONL02,PKGO02,PKGO01,IMPL03,UNK,ZZZ", "query codes")
	out := fs.String("out", "", "output file")
	_ = fs.Parse(args)
	rng := rand.New(rand.NewSource(*seed))
	tok := strings.Split(*tokens, ",")
	qc := strings.Split(*qcodes, ",")
	f, err := os.Create(*out)
	if err != nil {
		fmt.Fprintln(os.Stderr, err)
		return 2
	}
	defer f.Close()
	w := bufio.NewWriter(f)
	defer w.Flush()
	enc := json.NewEncoder(w)
	events := 0
	for h := 0; h < *n; h++ {
		set := &util.IgnoreSet{}
		_ = enc.Encode(map[string]any{"ev": "Reset"})
		events++
		nops := 5 + rng.Intn(8)
		for i := 0; i < nops; i++ {
			switch r := rng.Intn(10); {
			case r < 5: // scoped add
				k := 1 + rng.Intn(3)
				codes := make([]string, k)
				for j := range codes {
					codes[j] = tok[rng.Intn(len(tok))]
				}
				s := 1 + rng.Intn(*maxPos)
				e := s + rng.Intn(*maxPos-s+1)
				if rng.Intn(12) == 0 { // inverted range: never matches
					s, e = e, s
				}
				applyOp(set, isOp{Codes: codes, S: s, E: e})
				_ = enc.Encode(map[string]any{"ev": "Add", "codes": codes, "s": s, "e": e})
				events++
			case r < 6: // global add
				k := rng.Intn(3)
				codes := make([]string, k)
				for j := range codes {
					codes[j] = tok[rng.Intn(len(tok))]
				}
				applyOp(set, isOp{Global: true, Codes: codes})
				_ = enc.Encode(map[string]any{"ev": "AddModule", "codes": codes})
				events++
			default:
				c := qc[rng.Intn(len(qc))]
				p := rng.Intn(*maxPos + 2)
				ans := set.Contains(c, token.Pos(p))
				_ = enc.Encode(map[string]any{"ev": "Contains", "code": c, "pos": p, "ans": ans})
				events++
			}
		}
	}
	fmt.Printf("{\"histories\":%d,\"events\":%d}\n", *n, events)
	return 0
}
