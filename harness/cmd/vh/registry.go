package main

// Replay of Registry.tla histories into the real util.TypeAssociationRegistry and util.TypesMap
// (the indexes of the immutable / constructor / testonly checkers; supports C01-C03).

import (
	"bufio"
	"encoding/json"
	"fmt"
	"os"
	"slices"
	"strconv"
	"strings"

	"github.com/a14e/gogreement/src/util"
)

func init() {
	commands["registry-replay"] = registryReplay
}

type regState struct {
	H     [][]string `json:"h"`
	Assoc [][]string `json:"assoc"`
	Len   int        `json:"len"`
	Types []bool     `json:"types"`
	TLen  int        `json:"tlen"`
}

func registryReplay(args []string) int {
	keys := [][2]string{{"p", "A"}, {"p", "B"}, {"q", "A"}, {"q", "B"}}
	names := []string{"f", "g", "h"} // "h" is never added
	sc := bufio.NewScanner(os.Stdin)
	sc.Buffer(make([]byte, 1<<20), 1<<20)
	n, queries, badLines := 0, 0, 0
	nUsed, nUnused := 0, 0
	var bad []map[string]any
	for sc.Scan() {
		line := strings.TrimSpace(sc.Text())
		if strings.HasPrefix(line, "\"") { // TLC prints strings quoted
			if u, err := strconv.Unquote(line); err == nil {
				line = u
			}
		}
		i := strings.Index(line, "@E ")
		if i < 0 {
			continue
		}
		var st regState
		if err := json.Unmarshal([]byte(line[i+3:]), &st); err != nil || len(st.Assoc) != 4 || len(st.Types) != 4 {
			badLines++
			continue
		}
		n++
		reg := util.NewTypeAssociationRegistry()
		tm := util.NewTypesMap()
		for _, op := range st.H {
			if op[0] == "assoc" {
				reg.Add(op[1], op[3], op[2])
			} else {
				tm.Add(op[1], op[2])
			}
		}
		// used: the query is consulted by the checkers (Match, HasType, Empty, Contains, the *set* of GetAssociated);
		// Len and the order / multiplicity of GetAssociated only feed message texts or nothing at all
		failU := func(used bool, what string, exp, got any) {
			if (used && nUsed < 10) || (!used && nUnused < 5) {
				if used {
					nUsed++
				} else {
					nUnused++
				}
				bad = append(bad, map[string]any{"history": st.H, "query": what, "expected": exp, "observed": got, "used": used})
			}
		}
		fail := func(what string, exp, got any) { failU(true, what, exp, got) }
		for k, key := range keys {
			want := st.Assoc[k]
			got := reg.GetAssociated(key[0], key[1])
			queries++
			if !slices.Equal(got, want) && !(len(got) == 0 && len(want) == 0) {
				sameSet := true
				for _, x := range want {
					sameSet = sameSet && slices.Contains(got, x)
				}
				for _, x := range got {
					sameSet = sameSet && slices.Contains(want, x)
				}
				failU(!sameSet, fmt.Sprintf("GetAssociated(%s,%s)", key[0], key[1]), want, got)
			}
			queries++
			if reg.HasType(key[0], key[1]) != (len(want) > 0) {
				fail(fmt.Sprintf("HasType(%s,%s)", key[0], key[1]), len(want) > 0, reg.HasType(key[0], key[1]))
			}
			for _, nm := range names {
				queries++
				if reg.Match(key[0], nm, key[1]) != slices.Contains(want, nm) {
					fail(fmt.Sprintf("Match(%s,%s,%s)", key[0], nm, key[1]), slices.Contains(want, nm), reg.Match(key[0], nm, key[1]))
				}
			}
			queries++
			if tm.Contains(key[0], key[1]) != st.Types[k] {
				fail(fmt.Sprintf("Contains(%s,%s)", key[0], key[1]), st.Types[k], tm.Contains(key[0], key[1]))
			}
		}
		// keys that were never used
		queries += 3
		if reg.Match("r", "f", "A") || reg.HasType("p", "C") || tm.Contains("r", "A") {
			fail("unknown key", false, true)
		}
		queries += 4
		if reg.Len() != st.Len {
			failU(false, "Len", st.Len, reg.Len())
		}
		if reg.Empty() != (st.Len == 0) {
			fail("Empty", st.Len == 0, reg.Empty())
		}
		if tm.Len() != st.TLen {
			failU(false, "TypesMap.Len", st.TLen, tm.Len())
		}
		if tm.Empty() != (st.TLen == 0) {
			fail("TypesMap.Empty", st.TLen == 0, tm.Empty())
		}
	}
	_ = json.NewEncoder(os.Stdout).Encode(map[string]any{"histories": n, "queries": queries, "bad_lines": badLines, "mismatches": bad})
	if badLines > 0 || n == 0 {
		return 2
	}
	if len(bad) > 0 {
		return 1
	}
	return 0
}
