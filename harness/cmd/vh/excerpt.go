package main

// C19: replay of Excerpt.tla terminal states through the public
// reporting.Reporter.ReportViolation with a synthetic analysis.Pass.

import (
	"bufio"
	"encoding/json"
	"errors"
	"flag"
	"fmt"
	"go/token"
	"math/rand"
	"os"
	"regexp"
	"runtime"
	"strings"
	"sync"

	"golang.org/x/tools/go/analysis"

	"github.com/a14e/gogreement/src/reporting"
)

func init() {
	commands["excerpt-replay"] = excerptReplay
}

type exViolation struct{ pos token.Pos }

func (v exViolation) GetCode() string    { return "IMM01" }
func (v exViolation) GetPos() token.Pos  { return v.pos }
func (v exViolation) GetMessage() string { return "synthetic" }

type exCase struct {
	NLines, LineNo, Len, Col int
	Readable                 bool
	WinLo, WinHi             int
	Shown, Pre               bool
	Start, End               int
	Post                     bool
	Caret                    int
}

type exObs struct {
	Failed   string `json:"failed,omitempty"`
	WinLo    int    `json:"winLo"`
	WinHi    int    `json:"winHi"`
	Shown    bool   `json:"shown"`
	Pre      bool   `json:"pre"`
	Start    int    `json:"start"`
	End      int    `json:"end"`
	Post     bool   `json:"post"`
	Caret    int    `json:"caret"`
	TabsOK   bool   `json:"tabsOK"`
	CtxOK    bool   `json:"ctxOK"`
	HelpOK   bool   `json:"helpOK"`
	Message  string `json:"message,omitempty"`
	Variant  string `json:"variant"`
	LineText string `json:"-"`
}

// linePattern returns n bytes in which every window of 12 bytes is unique.
// variant: "ascii", "tabs" (a tab every 7th byte), "utf8" (2-byte runes sprinkled in).
func linePattern(n int, variant string) string {
	rng := rand.New(rand.NewSource(42))
	const letters = "abcdefghijklmnopqrstuvwxyzABCDEFGHIJKLMNOPQRSTUVWXYZ0123456789"
	b := make([]byte, 0, n+2)
	for len(b) < n {
		i := len(b)
		switch {
		case variant == "tabs" && i%7 == 3:
			b = append(b, '\t')
		case variant == "utf8" && i%11 == 5 && i+2 <= n:
			b = append(b, 0xC3, 0xA9) // é
		default:
			b = append(b, letters[rng.Intn(len(letters))])
		}
	}
	return string(b[:n])
}

var exLineRe = regexp.MustCompile(`^\s*(\d+) \| (.*)$`)
var exCaretRe = regexp.MustCompile(`^\s+\| (.*)\^$`)

func runExcerpt(c exCase, variant string) (obs exObs) {
	obs.Variant = variant
	defer func() {
		if r := recover(); r != nil {
			obs.Failed = fmt.Sprint("panic: ", r)
		}
	}()
	// the file as the parser saw it: at least LineNo lines
	parsedLines := c.NLines
	if c.LineNo > parsedLines {
		parsedLines = c.LineNo
	}
	mk := func(n int) (string, []string) {
		ls := make([]string, n)
		for i := range ls {
			if i+1 == c.LineNo {
				ls[i] = linePattern(c.Len, variant)
			} else {
				ls[i] = fmt.Sprintf("ctx%d", i+1)
			}
		}
		if variant == "crlf" {
			return strings.Join(ls, "\r\n") + "\r\n", ls
		}
		return strings.Join(ls, "\n") + "\n", ls
	}
	parsed, plines := mk(parsedLines)
	onDisk, _ := mk(c.NLines)
	if c.NLines == 0 {
		onDisk = ""
	}
	fset := token.NewFileSet()
	tf := fset.AddFile("/vfs/f.go", -1, len(parsed))
	tf.SetLinesForContent([]byte(parsed))
	pos := tf.LineStart(c.LineNo) + token.Pos(c.Col-1)
	var msgs []string
	pass := &analysis.Pass{
		Fset: fset,
		ReadFile: func(name string) ([]byte, error) {
			if !c.Readable {
				return nil, errors.New("unreadable")
			}
			return []byte(onDisk), nil
		},
		Report: func(d analysis.Diagnostic) { msgs = append(msgs, d.Message) },
	}
	reporting.NewReporter(pass, nil).ReportViolation(exViolation{pos})
	if len(msgs) != 1 {
		obs.Failed = fmt.Sprintf("%d diagnostics reported", len(msgs))
		return
	}
	msg := msgs[0]
	obs.Message = msg
	if !strings.HasPrefix(msg, "error: [IMM01] synthetic\n") {
		obs.Failed = "bad header"
		return
	}
	orig := plines[c.LineNo-1]
	obs.LineText = orig
	obs.CtxOK = true
	obs.TabsOK = true
	lines := strings.Split(msg, "\n")
	for i := 1; i < len(lines); i++ {
		m := exLineRe.FindStringSubmatch(lines[i])
		if m == nil {
			continue
		}
		var num int
		fmt.Sscan(m[1], &num)
		if obs.WinLo == 0 || num < obs.WinLo {
			obs.WinLo = num
		}
		if num > obs.WinHi {
			obs.WinHi = num
		}
		text := m[2]
		if num != c.LineNo {
			if text != fmt.Sprintf("ctx%d", num) {
				obs.CtxOK = false
			}
			continue
		}
		obs.Shown = true
		mid := text
		if len(orig) > 3 && strings.HasPrefix(mid, "...") {
			obs.Pre = true
			mid = mid[3:]
		}
		if len(orig) > 3 && strings.HasSuffix(mid, "...") {
			obs.Post = true
			mid = mid[:len(mid)-3]
		}
		if !obs.Pre {
			if !strings.HasPrefix(orig, mid) {
				obs.Failed = "shown text is not a prefix of the source line"
				return
			}
			obs.Start = 0
		} else {
			if strings.Count(orig, mid) != 1 {
				obs.Failed = "shown text not found exactly once in the source line"
				return
			}
			obs.Start = strings.Index(orig, mid)
		}
		obs.End = obs.Start + len(mid)
		if i+1 < len(lines) {
			if cm := exCaretRe.FindStringSubmatch(lines[i+1]); cm != nil {
				// the caret column is where the caret stands relative to the start of the excerpt text of the numbered row
				// (both rows have a gutter; they must line up whatever the width of the line numbers)
				textStart := strings.Index(lines[i], "| ") + 2
				caretAt := strings.Index(lines[i+1], "| ") + 2 + len(cm[1])
				obs.Caret = caretAt - textStart + 1
				for k := 0; k < len(cm[1]); k++ {
					wantTab := k < len(text) && text[k] == '\t'
					if (cm[1][k] == '\t') != wantTab {
						obs.TabsOK = false
					}
				}
			}
		}
	}
	obs.HelpOK = !obs.Shown && obs.WinLo == 0 || strings.Contains(msg, "   = help: https://a14e.github.io/gogreement/02_02_immutable.html\n")
	return
}

func excerptReplay(args []string) int {
	fs := flag.NewFlagSet("excerpt-replay", flag.ExitOnError)
	variants := fs.String("variants", "ascii,tabs,utf8,crlf", "line content variants (crlf: ascii content, CRLF line endings)")
	one := fs.String("replay", "", "replay one case from a JSON file")
	_ = fs.Parse(args)
	vs := strings.Split(*variants, ",")

	check := func(c exCase, variant string) (exObs, []string) {
		o := runExcerpt(c, variant)
		var bad []string
		if o.Failed != "" {
			return o, []string{o.Failed}
		}
		if o.Shown != c.Shown {
			bad = append(bad, "shown")
		}
		if o.WinLo != c.WinLo || o.WinHi != c.WinHi {
			bad = append(bad, "window")
		}
		if c.Shown && o.Shown {
			if o.Pre != c.Pre || o.Post != c.Post || o.Start != c.Start || o.End != c.End {
				bad = append(bad, "excerpt")
			}
			if o.Caret != c.Caret {
				bad = append(bad, "caret")
			}
			if !o.TabsOK {
				bad = append(bad, "tabs")
			}
		}
		if !o.CtxOK {
			bad = append(bad, "context")
		}
		if !o.HelpOK {
			bad = append(bad, "help")
		}
		return o, bad
	}

	if *one != "" {
		data, err := os.ReadFile(*one)
		if err != nil {
			fmt.Fprintln(os.Stderr, err)
			return 2
		}
		var r struct {
			Case    exCase
			Variant string
		}
		if err := json.Unmarshal(data, &r); err != nil {
			fmt.Fprintln(os.Stderr, err)
			return 2
		}
		o, bad := check(r.Case, r.Variant)
		_ = json.NewEncoder(os.Stdout).Encode(map[string]any{"observed": o, "bad": bad})
		if len(bad) > 0 {
			return 1
		}
		return 0
	}

	type mm struct {
		Case     exCase   `json:"Case"`
		Variant  string   `json:"Variant"`
		Bad      []string `json:"bad"`
		Observed exObs    `json:"observed"`
	}
	jobs := make(chan exCase, 1024)
	var mu sync.Mutex
	var mismatches []mm
	var total, shown, truncated int64
	var samples []map[string]any
	var wg sync.WaitGroup
	for w := 0; w < runtime.NumCPU(); w++ {
		wg.Add(1)
		go func() {
			defer wg.Done()
			var lt, lshown, ltr int64
			var lm []mm
			var ls []map[string]any
			for c := range jobs {
				for _, v := range vs {
					lt++
					o, bad := check(c, v)
					if c.Shown {
						lshown++
					}
					if c.Pre || c.Post {
						ltr++
					}
					if len(bad) > 0 && len(lm) < 50 {
						lm = append(lm, mm{c, v, bad, o})
					}
					if len(ls) < 1 && (c.Pre && c.Post) {
						ls = append(ls, map[string]any{"case": c, "variant": v, "message": o.Message})
					}
				}
			}
			mu.Lock()
			total += lt
			shown += lshown
			truncated += ltr
			mismatches = append(mismatches, lm...)
			if len(samples) < 2 {
				samples = append(samples, ls...)
			}
			mu.Unlock()
		}()
	}
	sc := bufio.NewScanner(os.Stdin)
	sc.Buffer(make([]byte, 1<<20), 1<<20)
	bad := 0
	cases := 0
	for sc.Scan() {
		line := sc.Text()
		i := strings.Index(line, "@E ")
		if i < 0 {
			continue
		}
		v, err := parseIntSeq(strings.TrimSuffix(strings.TrimSpace(line[i+3:]), "\""))
		if err != nil || len(v) != 13 {
			bad++
			continue
		}
		cases++
		jobs <- exCase{NLines: v[0], LineNo: v[1], Len: v[2], Col: v[3], Readable: v[4] == 1,
			WinLo: v[5], WinHi: v[6], Shown: v[7] == 1, Pre: v[8] == 1, Start: v[9], End: v[10], Post: v[11] == 1, Caret: v[12]}
	}
	close(jobs)
	wg.Wait()
	_ = json.NewEncoder(os.Stdout).Encode(map[string]any{
		"cases": cases, "executions": total, "shown": shown, "truncated": truncated,
		"bad_lines": bad, "mismatches": mismatches, "samples": samples,
	})
	if bad > 0 {
		return 2
	}
	if len(mismatches) > 0 {
		return 1
	}
	return 0
}
