package main

// vh run: the in-process driver.  Programs (sets of packages given as source
// text) are read as NDJSON from stdin, written to a scratch directory, parsed
// and type-checked with go/types, wrapped into hand-built packages.Package
// values and analysed by the real driver golang.org/x/tools/go/analysis/checker
// with the eight real analyzers of gogreement.  One process = one configuration
// (configOnce is process-wide), given by flags.

import (
	"bufio"
	"encoding/json"
	"flag"
	"fmt"
	"go/ast"
	"go/importer"
	"go/parser"
	"go/token"
	"go/types"
	"os"
	"path/filepath"
	"runtime"
	"runtime/debug"
	"sort"
	"strings"
	"sync"
	"time"

	"golang.org/x/tools/go/analysis"
	"golang.org/x/tools/go/analysis/checker"
	"golang.org/x/tools/go/packages"

	"github.com/a14e/gogreement/src/analyzer"
	"github.com/a14e/gogreement/src/annotations"
	"github.com/a14e/gogreement/src/ignore"

	"verif/harness/internal/trace"
)

func init() {
	commands["run"] = runPrograms
}

type progFile struct {
	Name string `json:"name"` // path relative to the program root, e.g. "d/a.go"
	Src  string `json:"src"`
}

type progPkg struct {
	Path  string     `json:"path"`
	Name  string     `json:"name"`
	Files []progFile `json:"files"`
}

type program struct {
	ID       string    `json:"id"`
	Pkgs     []progPkg `json:"pkgs"`     // in dependency order (imports first)
	Named    []string  `json:"named"`    // package paths given "on the command line"; empty = all
	Schedule []string  `json:"schedule"` // optional: S:/E: tokens the actions must follow (needs -trace and -j 1)
	Query    *implQuery `json:"query"`    // optional: ask go/types whether a type implements an interface (second oracle of C05)
}

type implQuery struct {
	Pkg      string `json:"pkg"`
	Type     string `json:"type"`
	Ptr      bool   `json:"ptr"`
	IfacePkg string `json:"iface_pkg"`
	Iface    string `json:"iface"`
}

type implAnswer struct {
	IsIface bool     `json:"is_iface"`
	Missing []string `json:"missing"`
	Err     string   `json:"err,omitempty"`
}

// goTypesAnswer is Go's own verdict: the methods of the interface that are absent from the method set of
// T (or *T) or present with a non-identical signature.
func goTypesAnswer(q *implQuery, byPath map[string]*packages.Package) *implAnswer {
	ans := &implAnswer{Missing: []string{}}
	tp, ok := byPath[q.Pkg]
	ip, ok2 := byPath[q.IfacePkg]
	if !ok || !ok2 {
		ans.Err = "package not in program"
		return ans
	}
	tobj := tp.Types.Scope().Lookup(q.Type)
	iobj := ip.Types.Scope().Lookup(q.Iface)
	if tobj == nil {
		ans.Err = "type not found"
		return ans
	}
	if iobj == nil {
		return ans
	}
	tn, isType := iobj.(*types.TypeName)
	if !isType {
		return ans
	}
	iface, isIface := tn.Type().Underlying().(*types.Interface)
	if !isIface {
		return ans
	}
	ans.IsIface = true
	var t types.Type = tobj.Type()
	if q.Ptr {
		t = types.NewPointer(t)
	}
	ms := types.NewMethodSet(t)
	for i := 0; i < iface.NumMethods(); i++ {
		m := iface.Method(i)
		sel := ms.Lookup(m.Pkg(), m.Name())
		if sel == nil || !types.Identical(sel.Obj().Type(), m.Type()) {
			ans.Missing = append(ans.Missing, m.Name())
		}
	}
	sort.Strings(ans.Missing)
	return ans
}

type outDiag struct {
	Pkg      string `json:"pkg"`
	Analyzer string `json:"analyzer"`
	File     string `json:"file"`
	Line     int    `json:"line"`
	Col      int    `json:"col"`
	Msg      string `json:"msg"`
}

type outMarker struct {
	Codes     []string `json:"codes"`
	StartLine int      `json:"sl"`
	StartCol  int      `json:"sc"`
	EndLine   int      `json:"el"`
	EndCol    int      `json:"ec"`
	File      string   `json:"file"`
}

type progResult struct {
	ID      string                                     `json:"id"`
	Diags   []outDiag                                  `json:"diags"`
	Err     string                                     `json:"err,omitempty"`   // load / type-check problem: not a verdict
	Fail    string                                     `json:"fail,omitempty"`  // analyzer error or panic: C10
	Ann     map[string]*annotations.PackageAnnotations `json:"ann,omitempty"`   // -dump: annotationreader result per named package
	Markers map[string][]outMarker                     `json:"marks,omitempty"` // -dump: ignorereader markers per named package
	Millis  int64                                      `json:"ms"`
	GoTypes *implAnswer                                `json:"gotypes,omitempty"`
}

var stdImporter = struct {
	sync.Mutex
	imp  types.Importer
	fset *token.FileSet
}{}

func importStd(path string) (*types.Package, error) {
	stdImporter.Lock()
	defer stdImporter.Unlock()
	if stdImporter.imp == nil {
		stdImporter.fset = token.NewFileSet()
		stdImporter.imp = importer.ForCompiler(stdImporter.fset, "source", nil)
	}
	return stdImporter.imp.Import(path)
}

type mapImporter struct {
	own map[string]*types.Package
}

func (m mapImporter) Import(path string) (*types.Package, error) {
	if p, ok := m.own[path]; ok {
		return p, nil
	}
	return importStd(path)
}

// wrapAnalyzers makes every analyzer's Run recover from panics so that a crash
// of the code under test is reported for its scenario (C10) instead of killing
// the harness.  The wrapped function calls the original Run unchanged.
var wrapOnce sync.Once

// tracer, when set (-trace), observes and gates every action (internal/trace)
var tracer *trace.Tracer

func wrapAnalyzers(all []*analysis.Analyzer) {
	wrapOnce.Do(func() {
		for _, a := range all {
			orig := a.Run
			a.Run = func(pass *analysis.Pass) (res any, err error) {
				defer func() {
					if r := recover(); r != nil {
						err = fmt.Errorf("PANIC in %s on %s: %v\n%s", pass.Analyzer.Name, pass.Pkg.Path(), r, debug.Stack())
					}
				}()
				return orig(pass)
			}
		}
		if tracer != nil {
			tracer.Wrap(all) // outermost: Start/End events also bracket a panicking Run
		}
	})
}

type runOpts struct {
	revBases   bool
	dir        string
	sequential bool
	sanity     bool
	dump       bool
	timeout    time.Duration
}

// revBases: the files of every package are added to the FileSet in reverse order, so that a later file of pass.Files has
// the lower position base (go/packages parses the files of a package concurrently: any base order is a possible run).
func loadProgram(p *program, root string, revBases bool) ([]*packages.Package, map[string]*packages.Package, error) {
	fset := token.NewFileSet()
	own := map[string]*types.Package{}
	byPath := map[string]*packages.Package{}
	var list []*packages.Package
	for _, pp := range p.Pkgs {
		files := make([]*ast.File, len(pp.Files))
		names := make([]string, len(pp.Files))
		for k := range pp.Files {
			idx := k
			if revBases {
				idx = len(pp.Files) - 1 - k
			}
			f := pp.Files[idx]
			full := filepath.Join(root, f.Name)
			if err := os.MkdirAll(filepath.Dir(full), 0o755); err != nil {
				return nil, nil, err
			}
			if err := os.WriteFile(full, []byte(f.Src), 0o644); err != nil {
				return nil, nil, err
			}
			af, err := parser.ParseFile(fset, full, f.Src, parser.ParseComments)
			if err != nil {
				return nil, nil, fmt.Errorf("parse %s: %v", f.Name, err)
			}
			files[idx] = af
			names[idx] = full
		}
		info := &types.Info{
			Types:        map[ast.Expr]types.TypeAndValue{},
			Defs:         map[*ast.Ident]types.Object{},
			Uses:         map[*ast.Ident]types.Object{},
			Implicits:    map[ast.Node]types.Object{},
			Instances:    map[*ast.Ident]types.Instance{},
			Scopes:       map[ast.Node]*types.Scope{},
			Selections:   map[*ast.SelectorExpr]*types.Selection{},
			FileVersions: map[*ast.File]string{},
		}
		var terrs []string
		conf := types.Config{
			Importer: mapImporter{own},
			Error:    func(err error) { terrs = append(terrs, err.Error()) },
		}
		tp, _ := conf.Check(pp.Path, fset, files, info)
		if len(terrs) > 0 {
			return nil, nil, fmt.Errorf("typecheck %s: %s", pp.Path, strings.Join(terrs, "; "))
		}
		if tp.Name() != pp.Name {
			return nil, nil, fmt.Errorf("package %s declares name %s, scenario says %s", pp.Path, tp.Name(), pp.Name)
		}
		own[pp.Path] = tp
		pkg := &packages.Package{
			ID:              pp.Path,
			Name:            pp.Name,
			PkgPath:         pp.Path,
			GoFiles:         names,
			CompiledGoFiles: names,
			Imports:         map[string]*packages.Package{},
			Types:           tp,
			Fset:            fset,
			Syntax:          files,
			TypesInfo:       info,
			TypesSizes:      types.SizesFor("gc", runtime.GOARCH),
		}
		for _, imp := range tp.Imports() {
			if dep, ok := byPath[imp.Path()]; ok {
				pkg.Imports[imp.Path()] = dep
			}
			// standard-library imports are not analysed: they carry no annotations and the
			// analyzers look only at direct imports' facts (absent facts are simply skipped)
		}
		byPath[pp.Path] = pkg
		list = append(list, pkg)
	}
	return list, byPath, nil
}

func analyzeProgram(p *program, o runOpts) (res progResult) {
	t0 := time.Now()
	res.ID = p.ID
	defer func() { res.Millis = time.Since(t0).Milliseconds() }()
	root := filepath.Join(o.dir, "p_"+sanitize(p.ID))
	defer os.RemoveAll(root)
	list, byPath, err := loadProgram(p, root, o.revBases)
	if err != nil {
		res.Err = err.Error()
		return
	}
	if p.Query != nil {
		q := *p.Query
		res.GoTypes = goTypesAnswer(&q, byPath)
	}
	var roots []*packages.Package
	if len(p.Named) == 0 {
		roots = list
	} else {
		for _, n := range p.Named {
			pk, ok := byPath[n]
			if !ok {
				res.Err = "named package not in program: " + n
				return
			}
			roots = append(roots, pk)
		}
	}
	all := analyzer.AllAnalyzers()
	wrapAnalyzers(all)
	if tracer != nil {
		tracer.Emit(trace.Event{Ev: "Reset", ID: p.ID})
		tracer.SetSchedule(p.Schedule)
		defer func() {
			if n := tracer.Remaining(); n > 0 && res.Fail == "" && res.Err == "" {
				res.Err = fmt.Sprintf("schedule not consumed: %d tokens left", n)
			}
			tracer.Emit(trace.Event{Ev: "Finish", ID: p.ID})
		}()
	}
	type gres struct {
		g   *checker.Graph
		err error
	}
	ch := make(chan gres, 1)
	go func() {
		g, err := checker.Analyze(all, roots, &checker.Options{Sequential: o.sequential, SanityCheck: o.sanity})
		ch <- gres{g, err}
	}()
	var g *checker.Graph
	select {
	case r := <-ch:
		if r.err != nil {
			res.Fail = "driver: " + r.err.Error()
			return
		}
		g = r.g
	case <-time.After(o.timeout):
		res.Fail = fmt.Sprintf("HANG: analysis did not finish within %s", o.timeout)
		return
	}
	isRoot := map[*packages.Package]bool{}
	for _, r := range roots {
		isRoot[r] = true
	}
	seen := map[string]bool{}
	for act := range g.All() {
		if act.Err != nil && !strings.HasPrefix(act.Err.Error(), "failed prerequisites") {
			if res.Fail == "" {
				res.Fail = fmt.Sprintf("%s: %v", act, act.Err)
			}
		}
		if !isRoot[act.Package] {
			continue
		}
		for _, d := range act.Diagnostics {
			posn := act.Package.Fset.Position(d.Pos)
			rel, _ := filepath.Rel(root, posn.Filename)
			od := outDiag{Pkg: act.Package.PkgPath, Analyzer: act.Analyzer.Name, File: rel, Line: posn.Line, Col: posn.Column, Msg: d.Message}
			k := fmt.Sprint(od)
			if !seen[k] {
				seen[k] = true
				res.Diags = append(res.Diags, od)
			}
		}
		if o.dump && act.IsRoot {
			switch v := act.Result.(type) {
			case annotations.PackageAnnotations:
				if res.Ann == nil {
					res.Ann = map[string]*annotations.PackageAnnotations{}
				}
				vv := v
				res.Ann[act.Package.PkgPath] = &vv
			case ignore.IgnoreResult:
				if res.Markers == nil {
					res.Markers = map[string][]outMarker{}
				}
				ms := []outMarker{}
				if v.IgnoreSet != nil {
					for _, m := range v.IgnoreSet.Markers {
						s := act.Package.Fset.Position(m.StartPos)
						e := act.Package.Fset.Position(m.EndPos)
						rel, _ := filepath.Rel(root, s.Filename)
						ms = append(ms, outMarker{Codes: m.Codes, StartLine: s.Line, StartCol: s.Column, EndLine: e.Line, EndCol: e.Column, File: rel})
					}
				}
				res.Markers[act.Package.PkgPath] = ms
			}
		}
	}
	sort.Slice(res.Diags, func(i, j int) bool {
		a, b := res.Diags[i], res.Diags[j]
		if a.File != b.File {
			return a.File < b.File
		}
		if a.Line != b.Line {
			return a.Line < b.Line
		}
		if a.Col != b.Col {
			return a.Col < b.Col
		}
		return a.Msg < b.Msg
	})
	return
}

func sanitize(s string) string {
	return strings.Map(func(r rune) rune {
		if r >= 'a' && r <= 'z' || r >= 'A' && r <= 'Z' || r >= '0' && r <= '9' || r == '-' {
			return r
		}
		return '_'
	}, s)
}

func runPrograms(args []string) int {
	fs := flag.NewFlagSet("run", flag.ExitOnError)
	scanTests := fs.String("scan-tests", "", "config.scan-tests flag value (empty: flag not given)")
	exclPaths := fs.String("exclude-paths", "\x00", "config.exclude-paths flag value (unset: flag not given)")
	exclChecks := fs.String("exclude-checks", "\x00", "config.exclude-checks flag value (unset: flag not given)")
	dir := fs.String("dir", "", "scratch directory for the generated sources")
	seq := fs.Bool("sequential", false, "checker.Options.Sequential")
	sanity := fs.Bool("sanity", true, "checker.Options.SanityCheck (gob round trip of every inherited fact)")
	dump := fs.Bool("dump", false, "include annotationreader / ignorereader results of the named packages")
	jobs := fs.Int("j", runtime.NumCPU(), "programs analysed concurrently")
	revBases := fs.Bool("revbases", false, "add the files of each package to the FileSet in reverse order (position bases descend along pass.Files)")
	timeout := fs.Duration("timeout", 60*time.Second, "per-program wall-clock bound (C10)")
	tracePath := fs.String("trace", "", "record Start/Export/Import/End events of every action to this NDJSON file (use -j 1)")
	_ = fs.Parse(args)
	if *tracePath != "" {
		t, err := trace.New(*tracePath, "")
		if err != nil {
			fmt.Fprintln(os.Stderr, err)
			return 2
		}
		// only the packages of the generated programs (module paths m, m0, m1, ...) are traced and gated;
		// standard-library imports such as unsafe are not analysed by this driver and carry no facts
		t.Filter = func(path string) bool {
			i := strings.Index(path, "/")
			if i <= 0 || path[0] != 'm' {
				return false
			}
			for _, c := range path[1:i] {
				if c < '0' || c > '9' {
					return false
				}
			}
			return true
		}
		tracer = t
		*jobs = 1
	}
	if *dir == "" {
		d, err := os.MkdirTemp("", "vhrun")
		if err != nil {
			fmt.Fprintln(os.Stderr, err)
			return 2
		}
		defer os.RemoveAll(d)
		*dir = d
	}
	// configuration: exactly what multichecker would do with --config.xxx flags
	cf := &analyzer.ConfigReader.Flags
	if *scanTests != "" {
		if err := cf.Set("scan-tests", *scanTests); err != nil {
			fmt.Fprintln(os.Stderr, err)
			return 2
		}
	}
	if *exclPaths != "\x00" {
		_ = cf.Set("exclude-paths", *exclPaths)
	}
	if *exclChecks != "\x00" {
		_ = cf.Set("exclude-checks", *exclChecks)
	}
	o := runOpts{revBases: *revBases, dir: *dir, sequential: *seq, sanity: *sanity, dump: *dump, timeout: *timeout}

	in := make(chan *program, 64)
	out := make(chan progResult, 64)
	var wg sync.WaitGroup
	for w := 0; w < *jobs; w++ {
		wg.Add(1)
		go func() {
			defer wg.Done()
			for p := range in {
				out <- analyzeProgram(p, o)
			}
		}()
	}
	done := make(chan struct{})
	go func() {
		w := bufio.NewWriterSize(os.Stdout, 1<<20)
		enc := json.NewEncoder(w)
		for r := range out {
			_ = enc.Encode(r)
		}
		w.Flush()
		close(done)
	}()
	sc := bufio.NewScanner(os.Stdin)
	sc.Buffer(make([]byte, 1<<24), 1<<24)
	rc := 0
	for sc.Scan() {
		line := strings.TrimSpace(sc.Text())
		if line == "" {
			continue
		}
		p := &program{}
		if err := json.Unmarshal([]byte(line), p); err != nil {
			fmt.Fprintln(os.Stderr, "bad program line:", err)
			rc = 2
			continue
		}
		in <- p
	}
	close(in)
	wg.Wait()
	close(out)
	<-done
	return rc
}
