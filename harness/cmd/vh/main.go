// Command vh is the Go side of the /verif machinery: it replays scenarios
// emitted by TLC into the real gogreement code (built from /repo's working
// tree through the replace directive in go.mod) and records traces of the
// real code for validation by the *Trace specifications.
package main

import (
	"fmt"
	"os"
)

var commands = map[string]func(args []string) int{}

func main() {
	if len(os.Args) < 2 {
		fmt.Fprintln(os.Stderr, "usage: vh <command> [args]")
		os.Exit(2)
	}
	cmd, ok := commands[os.Args[1]]
	if !ok {
		fmt.Fprintf(os.Stderr, "vh: unknown command %q\n", os.Args[1])
		os.Exit(2)
	}
	os.Exit(cmd(os.Args[2:]))
}
