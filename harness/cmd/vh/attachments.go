package main

// Replay of Attachments.tla histories into the real util.AttachmentsMap (supports C04).

import (
	"bufio"
	"encoding/json"
	"fmt"
	"os"
	"regexp"
	"slices"
	"strconv"
	"strings"

	"github.com/a14e/gogreement/src/util"
)

func init() {
	commands["attachments-replay"] = attachmentsReplay
}

type atOp struct {
	Level, Pkg, Name, Sub string
	Att                   string
}

var atTuple = regexp.MustCompile(`<<\\?"(\w+)\\?", \\?"(\w*)\\?", \\?"(\w*)\\?", \\?"(\w*)\\?", (\d+)>>`)

func attachmentsReplay(args []string) int {
	pk := []string{"p", "q"}
	nm := []string{"A", "B"}
	sb := []string{"x", "y"}
	at := []string{"1", "2", "3"} // "3" is never added
	sc := bufio.NewScanner(os.Stdin)
	sc.Buffer(make([]byte, 1<<20), 1<<20)
	n, queries := 0, 0
	var bad []map[string]any
	for sc.Scan() {
		line := sc.Text()
		i := strings.Index(line, "@E ")
		if i < 0 {
			continue
		}
		var ops []atOp
		for _, m := range atTuple.FindAllStringSubmatch(line[i:], -1) {
			ops = append(ops, atOp{m[1], m[2], m[3], m[4], m[5]})
		}
		n++
		am := &util.AttachmentsMap{}
		for _, o := range ops {
			switch o.Level {
			case "pkg":
				am.AddPkgAttachment(o.Pkg, o.Att)
			case "func":
				am.AddPkgFunctionAttachment(o.Pkg, o.Name, o.Att)
			case "type":
				am.AddPkgTypeAttachment(o.Pkg, o.Name, o.Att)
			case "field":
				am.AddPkgTypeFieldAttachment(o.Pkg, o.Name, o.Sub, o.Att)
			case "method":
				am.AddPkgTypeMethodAttachment(o.Pkg, o.Name, o.Sub, o.Att)
			}
		}
		want := func(level, p, nme, s string) []string {
			var out []string
			for _, o := range ops {
				if o.Level == level && o.Pkg == p && o.Name == nme && o.Sub == s {
					out = append(out, o.Att)
				}
			}
			return out
		}
		fail := func(what string, exp, got any) {
			if len(bad) < 10 {
				bad = append(bad, map[string]any{"history": ops, "query": what, "expected": exp, "observed": got})
			}
		}
		if am.Empty() != (len(ops) == 0) {
			fail("Empty", len(ops) == 0, am.Empty())
		}
		for _, p := range pk {
			for _, a := range at {
				queries++
				if g, w := am.HasPkgAttachment(p, a), slices.Contains(want("pkg", p, "", ""), a); g != w {
					fail(fmt.Sprintf("HasPkgAttachment(%s,%s)", p, a), w, g)
				}
			}
			for _, nme := range nm {
				wf, wt := want("func", p, nme, ""), want("type", p, nme, "")
				queries += 4
				if g := am.HasAnyFunctionAttachments(p, nme); g != (len(wf) > 0) {
					fail(fmt.Sprintf("HasAnyFunctionAttachments(%s,%s)", p, nme), len(wf) > 0, g)
				}
				if g := am.HasAnyTypeAttachments(p, nme); g != (len(wt) > 0) {
					fail(fmt.Sprintf("HasAnyTypeAttachments(%s,%s)", p, nme), len(wt) > 0, g)
				}
				if g := am.GetAttachmentsForFunction(p, nme); !slices.Equal(g, wf) {
					fail(fmt.Sprintf("GetAttachmentsForFunction(%s,%s)", p, nme), wf, g)
				}
				if g := am.GetAttachmentsForType(p, nme); !slices.Equal(g, wt) {
					fail(fmt.Sprintf("GetAttachmentsForType(%s,%s)", p, nme), wt, g)
				}
				if g := am.GetAttachmentsForType(p, nme, "1"); !slices.Equal(g, slices.DeleteFunc(slices.Clone(wt), func(x string) bool { return x == "1" })) {
					fail(fmt.Sprintf("GetAttachmentsForType(%s,%s, excl 1)", p, nme), wt, g)
				}
				for _, a := range at {
					queries += 2
					if g, w := am.HasPkgFunctionAttachment(p, nme, a), slices.Contains(wf, a); g != w {
						fail(fmt.Sprintf("HasPkgFunctionAttachment(%s,%s,%s)", p, nme, a), w, g)
					}
					if g, w := am.HasPkgTypeAttachment(p, nme, a), slices.Contains(wt, a); g != w {
						fail(fmt.Sprintf("HasPkgTypeAttachment(%s,%s,%s)", p, nme, a), w, g)
					}
				}
				for _, s := range sb {
					wfl, wm := want("field", p, nme, s), want("method", p, nme, s)
					queries += 2
					if g := am.HasAnyMethodAttachments(p, nme, s); g != (len(wm) > 0) {
						fail(fmt.Sprintf("HasAnyMethodAttachments(%s,%s,%s)", p, nme, s), len(wm) > 0, g)
					}
					if g := am.GetAttachmentsForMethod(p, nme, s); !slices.Equal(g, wm) {
						fail(fmt.Sprintf("GetAttachmentsForMethod(%s,%s,%s)", p, nme, s), wm, g)
					}
					for _, a := range at {
						queries += 2
						if g, w := am.HasPkgTypeFieldAttachment(p, nme, s, a), slices.Contains(wfl, a); g != w {
							fail(fmt.Sprintf("HasPkgTypeFieldAttachment(%s,%s,%s,%s)", p, nme, s, a), w, g)
						}
						if g, w := am.HasPkgTypeMethodAttachment(p, nme, s, a), slices.Contains(wm, a); g != w {
							fail(fmt.Sprintf("HasPkgTypeMethodAttachment(%s,%s,%s,%s)", p, nme, s, a), w, g)
						}
					}
				}
			}
		}
	}
	_ = strconv.Itoa
	_ = json.NewEncoder(os.Stdout).Encode(map[string]any{"histories": n, "queries": queries, "mismatches": bad})
	if len(bad) > 0 {
		return 1
	}
	return 0
}
