package main

// Replay of ImportMap.tla terminal states into the real util.ImportMap (supports C05).

import (
	"bufio"
	"encoding/json"
	"fmt"
	"go/ast"
	"go/token"
	"go/types"
	"os"
	"strings"

	"github.com/a14e/gogreement/src/util"
)

func init() {
	commands["importmap-replay"] = importmapReplay
}

func importmapReplay(args []string) int {
	type imp struct {
		Alias string `json:"alias"`
		Path  string `json:"path"`
		Name  string `json:"name"`
	}
	type scen struct {
		Imports []imp  `json:"imports"`
		Q       string `json:"q"`
		Res     int    `json:"res"`
	}
	sc := bufio.NewScanner(os.Stdin)
	sc.Buffer(make([]byte, 1<<20), 1<<20)
	n, found := 0, 0
	var bad []map[string]any
	for sc.Scan() {
		line := strings.TrimSpace(sc.Text())
		if line == "" {
			continue
		}
		var s scen
		if err := json.Unmarshal([]byte(line), &s); err != nil {
			fmt.Fprintln(os.Stderr, "bad line:", err)
			return 2
		}
		n++
		m := &util.ImportMap{}
		for _, im := range s.Imports {
			spec := &ast.ImportSpec{Path: &ast.BasicLit{Kind: token.STRING, Value: `"` + im.Path + `"`}}
			if im.Alias != "" {
				spec.Name = ast.NewIdent(im.Alias)
			}
			var pkg *types.Package
			if im.Name != "" {
				pkg = types.NewPackage(im.Path, im.Name)
			}
			m.Add(spec, pkg)
		}
		got := m.Find(s.Q)
		want := ""
		if s.Res > 0 {
			w := s.Imports[s.Res-1]
			want = w.Alias + "|" + w.Path + "|" + w.Name
			found++
		}
		have := ""
		if got != nil {
			have = got.Alias + "|" + got.FullPath + "|" + got.PackageName
		}
		if have != want && len(bad) < 10 {
			bad = append(bad, map[string]any{"imports": s.Imports, "q": s.Q, "expected": want, "observed": have})
		}
	}
	_ = json.NewEncoder(os.Stdout).Encode(map[string]any{"scenarios": n, "found": found, "mismatches": bad})
	if len(bad) > 0 {
		return 1
	}
	return 0
}
