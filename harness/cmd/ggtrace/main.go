// Command ggtrace is cmd/gogreement with every analyzer's Run wrapped by the
// observing / gating function of internal/trace. It is otherwise identical to
// the real main: the same analyzers (analyzer.AllAnalyzers()), the same
// multichecker.Main (standalone driver, or unitchecker under go vet -vettool).
// VERIF_TRACE names the NDJSON trace file, VERIF_SCHEDULE an optional schedule.
package main

import (
	"fmt"
	"os"
	"strings"

	"golang.org/x/tools/go/analysis/multichecker"

	"github.com/a14e/gogreement/src/analyzer"

	"verif/harness/internal/trace"
)

func main() {
	all := analyzer.AllAnalyzers()
	if path := os.Getenv("VERIF_TRACE"); path != "" {
		t, err := trace.New(path, os.Getenv("VERIF_SCHEDULE"))
		if err != nil {
			fmt.Fprintln(os.Stderr, "ggtrace:", err)
			os.Exit(2)
		}
		if pre := os.Getenv("VERIF_TRACE_PREFIX"); pre != "" {
			t.Filter = func(p string) bool { return strings.HasPrefix(p, pre) }
		}
		t.Wrap(all)
	}
	if len(os.Args) == 1 {
		os.Args = append(os.Args, "--help")
	}
	multichecker.Main(all...)
}
