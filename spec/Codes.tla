------------------------------- MODULE Codes -------------------------------
(***************************************************************************)
(* The diagnostic-code table of gogreement and the ALL > category > code   *)
(* hierarchy (src/codes/codes.go).  Pure definitions, no state.            *)
(***************************************************************************)
EXTENDS Sequences, FiniteSets, Naturals

Cats == {"IMM", "CTOR", "TONL", "PKGO", "IMPL"}

CodesOf(cat) ==
  CASE cat = "IMM"  -> {"IMM01", "IMM02", "IMM03", "IMM04"}
    [] cat = "CTOR" -> {"CTOR01", "CTOR02", "CTOR03"}
    [] cat = "TONL" -> {"TONL01", "TONL02", "TONL03"}
    [] cat = "PKGO" -> {"PKGO01", "PKGO02", "PKGO03"}
    [] cat = "IMPL" -> {"IMPL01", "IMPL02", "IMPL03"}

AllCodes == UNION {CodesOf(c) : c \in Cats}

IsCode(c) == c \in AllCodes
IsCat(c)  == c \in Cats

\* category of a known code
CatOf(c) == CHOOSE cat \in Cats : c \in CodesOf(cat)

AnalyzerOf(cat) ==
  CASE cat = "IMM"  -> "immutabilitychecker"
    [] cat = "CTOR" -> "constructorchecker"
    [] cat = "TONL" -> "testonlychecker"
    [] cat = "PKGO" -> "packageonlychecker"
    [] cat = "IMPL" -> "implementschecker"

DocPage(cat) ==
  CASE cat = "IMM"  -> "02_02_immutable.html"
    [] cat = "CTOR" -> "02_03_constructor.html"
    [] cat = "TONL" -> "02_04_testonly.html"
    [] cat = "PKGO" -> "02_05_packageonly.html"
    [] cat = "IMPL" -> "02_01_implements.html"

(* The check list consulted for a diagnostic code, in the order the        *)
(* implementation consults it (GetCodesForCheck).  Unknown strings get      *)
(* <<ALL, c>>; a category gets <<ALL, cat>>.                               *)
Hier(c) == IF IsCode(c) THEN <<"ALL", CatOf(c), c>>
           ELSE IF IsCat(c) THEN <<"ALL", c>>
           ELSE <<"ALL", c>>

HierSet(c) == {Hier(c)[i] : i \in 1..Len(Hier(c))}

(* L1 of C07/C08/C16: a (normalised, upper-case) suppression token matches *)
(* a diagnostic code iff it is ALL, the code's category or the code.       *)
Matches(tok, c) == tok \in HierSet(c)
=============================================================================
