-------------------------------- MODULE Scope --------------------------------
(***************************************************************************)
(* Scope of an `@ignore CODES` comment (src/ignore/ignore.go:              *)
(* ReadIgnoreAnnotations, findInlineNode, findNextNodeAfterComment) and    *)
(* its effect on the diagnostics of a program (reporter filter, and the    *)
(* detection-time filter of the once-per-file codes TONL01 / PKGO01).      *)
(*                                                                         *)
(* Layout (abstract positions: row*10 + column, one row per source line):  *)
(*                                                                         *)
(*   file 1                                   file 2 (1030 <D4>, 1050 <S41>, *)
(*                                            <T41> trailing the statement) *)
(*     5  <F0d> comment row, then a blank line (detached from the clause)  *)
(*    10  <F0>  comment row                   1010 <G0> comment row        *)
(*    20  package clause                      1020 package clause          *)
(*    30  <D1>  comment row                   1040 func fn4 (...) { <TF4>  *)
(*    40  func fn1(...) {        <TF1>        1060   stmt        (b1)      *)
(*    50  <S11> comment row                   1070 }                       *)
(*    60  stmt1                  <T11>                                     *)
(*    70  <S12> comment row                                                *)
(*    80  stmt2, first line      <T12a>                                    *)
(*    90  stmt2, second line     <T12b>                                    *)
(*   100  <S13> comment row                                                *)
(*   110  stmt3                  <T13>        1100 var h6 = func(...) {    *)
(*                                            1110 <S61> comment row       *)
(*                                            1120   stmt (b61)  <T61>     *)
(*                                            1130   stmt (b62)            *)
(*                                            1140 }   (a function literal *)
(*                                                 at package level)       *)
(*                                                 1180 <D5> comment row   *)
(*                                                 1190 var g5 = ... <TD5> *)
(*                                                 (last decl of file 2)   *)
(*   120  <E1>  comment row (last thing in the block)                      *)
(*   130  }                      <TD1>                                     *)
(*   140  <D2>  comment row                                                *)
(*   150  var g2 = ...           <TD2>     (single-line top-level decl)    *)
(*   160  <D3>  comment row                                                *)
(*   170  func fn3(...) {                                                  *)
(*   180  <S31> comment row                                                *)
(*   190  stmt                   <T31>                                     *)
(*   200  }                                                                *)
(*                                                                         *)
(* ld = TRUE: file 2 carries a `//line f2.go:N` directive in front of fn4 *)
(* (generated code): diagnostics below it are *reported* at adjusted line  *)
(* numbers, the scope of a comment is about the physical text.             *)
(*                                                                         *)
(* Every statement / declaration carries one diagnostic anchor of the      *)
(* program kind (which code, anchored at the first token or later on the   *)
(* line, and whether stmt2 has an anchor on its second line too).          *)
(*                                                                         *)
(* L2: Classify (file / inline / decl / stmt / lone) -> ComputeRange [s,e] *)
(* -> Filter with the inclusive range test of IgnoreSet and the code       *)
(* hierarchy of Codes.  L1: InScope by structure.                          *)
(* Deviations: PrefixMatch (a token that is a proper prefix of the code    *)
(* or of its category suppresses it), RangeToNodeStart (standalone comment *)
(* in a body covers only                                                   *)
(* up to the *start* of the next node - pinned code, D6), TrailAfterDecl   *)
(* (a comment trailing the last line of a top-level declaration is applied *)
(* to the next declaration - pinned code, D7), OnceConsumesSlot (a         *)
(* suppressed first use still uses up the once-per-file report),           *)
(* OnlyFuncDeclBodies (a standalone comment inside a package-level function *)
(* literal covers the rest of the declaration),                            *)
(* LineDirAdjusted (below a //line directive a trailing comment is not     *)
(* recognised as trailing: node lines are adjusted, comment lines are not),*)
(* FuncLineCoversBody (a comment trailing the `func` line makes the        *)
(* checker skip the whole body),                                           *)
(* FileDocOnly (only a comment attached to the package clause is           *)
(* file-level), LastMarkerOnly (see Contained).                            *)
(***************************************************************************)
EXTENDS Codes, Integers, TLC, Json

CONSTANTS Mode, Deviations, Emit

VARIABLES sc,      \* scenario [kind, slot, slot2, list]: one or two comments (slot2 may be "none") carrying the same code list
          ph, cls, rng, cls2, rng2, out

vars == <<sc, ph, cls, rng, cls2, rng2, out>>

(* program kinds: code, anchor column class, second-line anchor, once-per-file *)
Kinds == {"IMM01", "IMM01mid", "IMM03", "CTOR01", "CTOR02", "CTOR03", "TONL01", "TONL02", "TONL03", "PKGO01", "PKGO02", "PKGO03"}
CodeOfKind(k) == IF k = "IMM01mid" THEN "IMM01" ELSE k
Mid(k) == k \notin {"IMM01", "IMM03"}           \* anchored after the first token of the statement
TwoLine(k) == k \in {"CTOR01", "CTOR03", "TONL01", "TONL02", "PKGO02"}   \* stmt2 has an anchor on its second line too
Once(k) == k \in {"TONL01", "PKGO01"}

Anchors(k) == {"a11", "a12", "a13", "a2", "a31", "b1", "b5", "b61", "b62"} \cup (IF TwoLine(k) THEN {"a12b"} ELSE {})

Row(a) == CASE a = "a11" -> 60 [] a = "a12" -> 80 [] a = "a12b" -> 90 [] a = "a13" -> 110 [] a = "a2" -> 150
            [] a = "a31" -> 190 [] a = "b1" -> 1060 [] a = "b5" -> 1190 [] a = "b61" -> 1120 [] a = "b62" -> 1130
PosOf(a, k) == Row(a) + (IF Mid(k) \/ a \in {"a2", "a12b", "b5"} THEN 5 ELSE 0)
FileOf(p) == IF p >= 1000 THEN 2 ELSE 1
DeclOf(a) == CASE a \in {"a11", "a12", "a12b", "a13"} -> 1 [] a = "a2" -> 2 [] a = "a31" -> 3 [] a = "b1" -> 4 [] a = "b5" -> 5 [] a \in {"b61", "b62"} -> 6
StmtOf(a) == CASE a = "a11" -> 11 [] a \in {"a12", "a12b"} -> 12 [] a = "a13" -> 13 [] a = "a31" -> 31 [] a = "b1" -> 41 [] a = "b61" -> 61 [] a = "b62" -> 62 [] OTHER -> 0

\* source order of the anchors of a file (for the once-per-file rule)
Before(a, b, k) == FileOf(PosOf(a, k)) = FileOf(PosOf(b, k)) /\ PosOf(a, k) < PosOf(b, k)

Slots == {"none", "F0", "F0d", "G0", "D1", "D2", "D3", "D4", "D5", "S11", "S12", "S13", "S31", "S41", "E1",
          "T11", "T12a", "T12b", "T13", "T31", "T41", "TD1", "TD2", "TD5", "TF1", "TF4", "S61", "T61"}
SlotPos(s) == CASE s = "F0" -> 10 [] s = "F0d" -> 5 [] s = "G0" -> 1010 [] s = "D1" -> 30 [] s = "D2" -> 140 [] s = "D3" -> 160
                [] s = "S11" -> 50 [] s = "S12" -> 70 [] s = "S13" -> 100 [] s = "S31" -> 180 [] s = "E1" -> 120
                [] s = "T11" -> 69 [] s = "T12a" -> 89 [] s = "T12b" -> 99 [] s = "T13" -> 119 [] s = "T31" -> 199
                [] s = "TD1" -> 139 [] s = "TD2" -> 159 [] s = "D5" -> 1180 [] s = "TD5" -> 1199 [] s = "S61" -> 1110 [] s = "T61" -> 1129 [] s = "D4" -> 1030 [] s = "S41" -> 1050 [] s = "T41" -> 1069 [] s = "TF1" -> 49 [] s = "TF4" -> 1049 [] s = "none" -> 0
Trailing(s) == s \in {"T11", "T12a", "T12b", "T13", "T31", "T41", "TD1", "TD2", "TD5", "TF1", "TF4", "T61"}

\* structure
DeclSpan(d) == CASE d = 1 -> <<40, 131>> [] d = 2 -> <<150, 158>> [] d = 3 -> <<170, 201>> [] d = 4 -> <<1040, 1071>>
                 [] d = 5 -> <<1190, 1198>> [] d = 6 -> <<1100, 1141>>
Decls == 1..6
StmtSpan(s) == CASE s = 11 -> <<60, 68>> [] s = 12 -> <<80, 98>> [] s = 13 -> <<110, 118>> [] s = 31 -> <<190, 198>> [] s = 41 -> <<1060, 1068>> [] s = 61 -> <<1120, 1128>> [] s = 62 -> <<1130, 1138>>
PackagePos(f) == IF f = 1 THEN 20 ELSE 1020
FileEnd(f) == IF f = 1 THEN 210 ELSE 1200
LineStart(p) == (p \div 10) * 10

(* code lists: abstract tokens relative to the diagnostic code c of the kind *)
\* tokens that are no code but look like one: the code without its last character (IMM0), the category without its last letter
\* (IM), the code with one more digit (IMM011) - they match nothing
NearLists == {<<"prefix">>, <<"catprefix">>, <<"longer">>}
Lists == {<<"exact">>, <<"lower">>, <<"cat">>, <<"ALL">>, <<"all_lower">>, <<"othercode">>, <<"othercat">>, <<"unknown">>,
          <<"othercat", "exact">>, <<"unknown", "othercode">>, <<"exact", "text">>, <<"othercat", "text_exact">>} \cup NearLists
OtherCode(c) == CHOOSE x \in CodesOf(CatOf(c)) : x # c
OtherCat(c) == CHOOSE x \in Cats : x # CatOf(c)
\* the normalised (upper-cased) token a list element stands for; "" = not a token at all (free text after the codes)
Norm(t, c) == CASE t \in {"exact", "lower"} -> c [] t = "cat" -> CatOf(c) [] t \in {"ALL", "all_lower"} -> "ALL"
                [] t = "othercode" -> OtherCode(c) [] t = "othercat" -> OtherCat(c) [] t = "unknown" -> "FOO1"
                [] t \in {"text", "text_exact"} -> ""
                [] t \in {"prefix", "catprefix", "longer"} -> "FOO2"
ListMatches(l, c) == \E i \in 1..Len(l) : Norm(l[i], c) # "" /\ Matches(Norm(l[i], c), c)
ListMatches2(l, c) == ListMatches(l, c) \/ ("PrefixMatch" \in Deviations /\ \E i \in 1..Len(l) : l[i] \in {"prefix", "catprefix"})

(***************************************************************************)
(* L1: scope by structure                                                  *)
(***************************************************************************)
InScope(s, a, k) ==
  CASE s \in {"F0", "F0d"} -> FileOf(PosOf(a, k)) = 1
    [] s = "G0" -> FileOf(PosOf(a, k)) = 2
    [] s = "D1" -> DeclOf(a) = 1 [] s = "D2" -> DeclOf(a) = 2 [] s = "D3" -> DeclOf(a) = 3 [] s = "D4" -> DeclOf(a) = 4 [] s = "D5" -> DeclOf(a) = 5
    [] s = "S11" -> StmtOf(a) = 11 [] s = "S12" -> StmtOf(a) = 12 [] s = "S13" -> StmtOf(a) = 13 [] s = "S31" -> StmtOf(a) = 31 [] s = "S41" -> StmtOf(a) = 41 [] s = "S61" -> StmtOf(a) = 61
    [] s = "E1" -> FALSE
    [] Trailing(s) -> LineStart(PosOf(a, k)) = LineStart(SlotPos(s))
    [] OTHER -> FALSE

Suppressed1(a) == /\ ListMatches(sc.list, CodeOfKind(sc.kind))
                  /\ \/ (sc.slot # "none" /\ InScope(sc.slot, a, sc.kind))
                     \/ (sc.slot2 # "none" /\ InScope(sc.slot2, a, sc.kind))
L1 == IF Once(sc.kind)
        THEN {a \in Anchors(sc.kind) : ~Suppressed1(a) /\ \A b \in Anchors(sc.kind) : Before(b, a, sc.kind) => Suppressed1(b)}
        ELSE {a \in Anchors(sc.kind) : ~Suppressed1(a)}

(***************************************************************************)
(* L2                                                                      *)
(***************************************************************************)
InitScenario ==
  \/ /\ Mode = "all"
     /\ \E k \in Kinds, s \in Slots, s2 \in {"none", "F0", "D1", "S12", "T13"}, l \in Lists, ld \in BOOLEAN :
          /\ (s2 # "none" => s \notin {"none", s2})
          /\ (ld => s # "none" /\ FileOf(SlotPos(s)) = 2 /\ s2 = "none")
          /\ sc = [kind |-> k, slot |-> s, slot2 |-> s2, list |-> l, ld |-> ld]
  \/ /\ Mode = "quick"
     /\ \E k \in Kinds, s \in Slots, s2 \in {"none", "D1", "S12"}, l \in {<<"exact">>, <<"cat">>, <<"othercat", "exact">>, <<"othercode">>}, ld \in BOOLEAN :
          /\ (s2 # "none" => s \notin {"none", s2})
          /\ (ld => s # "none" /\ FileOf(SlotPos(s)) = 2 /\ s2 = "none")
          /\ sc = [kind |-> k, slot |-> s, slot2 |-> s2, list |-> l, ld |-> ld]

InitScenario2 ==   \* (quick) a file-level directive in the first file together with a directive in the second file
  /\ Mode = "quick"
  /\ \E k \in Kinds, s \in {"D4", "S41", "T41", "S61", "TD5"}, l \in {<<"ALL">>, <<"exact">>} :
       sc = [kind |-> k, slot |-> s, slot2 |-> "F0", list |-> l, ld |-> FALSE]

InitScenario3 ==   \* (quick) near-tokens at the four kinds of scope
  /\ Mode = "quick"
  /\ \E k \in Kinds, s \in {"F0", "D1", "S12", "T13"}, l \in NearLists :
       sc = [kind |-> k, slot |-> s, slot2 |-> "none", list |-> l, ld |-> FALSE]

Init == /\ (InitScenario \/ InitScenario2 \/ InitScenario3)
        /\ ph = "classify" /\ cls = "?" /\ rng = <<0, 0>> /\ cls2 = "?" /\ rng2 = <<0, 0>> /\ out = {}

\* the top-level declaration whose span contains p, or 0
Enclosing(p) == IF \E d \in Decls : DeclSpan(d)[1] <= p /\ p <= DeclSpan(d)[2]
                THEN CHOOSE d \in Decls : DeclSpan(d)[1] <= p /\ p <= DeclSpan(d)[2] ELSE 0
\* the first top-level declaration of the comment's file that starts after p, or 0
NextDecl(p) == LET ds == {d \in Decls : FileOf(DeclSpan(d)[1]) = FileOf(p) /\ DeclSpan(d)[1] > p}
               IN IF ds = {} THEN 0 ELSE CHOOSE d \in ds : \A e \in ds : DeclSpan(d)[1] <= DeclSpan(e)[1]
\* a declaration that ends on the comment's row, before the comment
DeclEndingOnRow(p) == IF \E d \in Decls : LineStart(DeclSpan(d)[2]) = LineStart(p) /\ DeclSpan(d)[2] < p
                      THEN CHOOSE d \in Decls : LineStart(DeclSpan(d)[2]) = LineStart(p) /\ DeclSpan(d)[2] < p ELSE 0
\* the first statement that starts after p inside declaration d, or 0
NextStmt(p, d) == LET ss == {s \in {11, 12, 13, 31, 41, 61, 62} : StmtSpan(s)[1] > p /\ StmtSpan(s)[1] >= DeclSpan(d)[1] /\ StmtSpan(s)[2] <= DeclSpan(d)[2]}
                  IN IF ss = {} THEN 0 ELSE CHOOSE s \in ss : \A t \in ss : StmtSpan(s)[1] <= StmtSpan(t)[1]
\* code before the comment on its row, inside declaration d
CodeOnRow(p, d) == LineStart(DeclSpan(d)[1]) = LineStart(p) \/ \E s \in {11, 12, 13, 31, 41, 61, 62} : StmtSpan(s)[1] < p /\ LineStart(StmtSpan(s)[1]) <= LineStart(p) /\ LineStart(p) <= LineStart(StmtSpan(s)[2])
                                                /\ StmtSpan(s)[1] >= DeclSpan(d)[1] /\ StmtSpan(s)[2] <= DeclSpan(d)[2]

LineDirBlind(p) == "LineDirAdjusted" \in Deviations /\ sc.ld /\ FileOf(p) = 2 /\ p > 1030
ClsOf(slot) ==
  LET p == SlotPos(slot) IN
  IF slot = "none" THEN "nocomment"
  ELSE IF p < PackagePos(FileOf(p)) /\ ~("FileDocOnly" \in Deviations /\ slot = "F0d") THEN "file"
  ELSE IF p < PackagePos(FileOf(p)) THEN "lone"          \* (deviation) a detached comment before the clause only reaches the import block
  ELSE IF Enclosing(p) # 0 THEN (IF CodeOnRow(p, Enclosing(p)) /\ ~LineDirBlind(p) THEN "inline" ELSE "stmt")
  ELSE IF DeclEndingOnRow(p) # 0 /\ ~("TrailAfterDecl" \in Deviations) /\ ~LineDirBlind(p) THEN "inline"
  ELSE IF NextDecl(p) # 0 THEN "decl"
  ELSE "lone"

RangeOf(slot, c) ==
  LET p == SlotPos(slot) IN
  CASE c = "nocomment" -> <<1, 0>>                       \* empty range
    [] c = "file" -> <<p, FileEnd(FileOf(p))>>
    [] c = "inline" -> <<LineStart(p), p>>
    [] c = "decl" -> <<p, DeclSpan(NextDecl(p))[2]>>
    [] c = "stmt" -> LET s == NextStmt(p, Enclosing(p)) IN
                     IF s = 0 THEN <<p, p>>
                     ELSE IF "OnlyFuncDeclBodies" \in Deviations /\ Enclosing(p) = 6 THEN <<p, DeclSpan(6)[2]>>   \* statements are looked for in func declarations only
                     ELSE IF "RangeToNodeStart" \in Deviations THEN <<p, StmtSpan(s)[1]>>
                     ELSE <<p, StmtSpan(s)[2]>>
    [] c = "lone" -> <<p, p>>

Classify ==
  /\ ph = "classify"
  /\ cls' = ClsOf(sc.slot) /\ cls2' = ClsOf(sc.slot2)
  /\ ph' = "range"
  /\ UNCHANGED <<sc, rng, rng2, out>>

ComputeRange ==
  /\ ph = "range"
  /\ rng' = RangeOf(sc.slot, cls) /\ rng2' = RangeOf(sc.slot2, cls2)
  /\ ph' = "filter"
  /\ UNCHANGED <<sc, cls, cls2, out>>

\* IgnoreSet.Contains: some marker of a matching token covers the position ("LastMarkerOnly": only the marker of that token
\* that starts last at or before the position is consulted - nested scopes of the same token hide each other)
InR(r, p) == r[1] <= p /\ p <= r[2]
Contained(p) == IF "LastMarkerOnly" \in Deviations /\ rng[1] <= rng[2] /\ rng2[1] <= rng2[2] /\ rng[1] <= p /\ rng2[1] <= p
                  THEN (IF rng[1] >= rng2[1] THEN InR(rng, p) ELSE InR(rng2, p))
                  ELSE InR(rng, p) \/ InR(rng2, p)
FuncLine(slot, a) == "FuncLineCoversBody" \in Deviations /\ ((slot = "TF1" /\ DeclOf(a) = 1) \/ (slot = "TF4" /\ DeclOf(a) = 4))
Supp2(a) == (Contained(PosOf(a, sc.kind)) \/ FuncLine(sc.slot, a) \/ FuncLine(sc.slot2, a)) /\ ListMatches2(sc.list, CodeOfKind(sc.kind))

Filter ==
  /\ ph = "filter"
  /\ out' = IF Once(sc.kind)
              THEN IF "OnceConsumesSlot" \in Deviations
                     THEN {a \in Anchors(sc.kind) : ~Supp2(a) /\ \A b \in Anchors(sc.kind) : ~Before(b, a, sc.kind)}
                     ELSE {a \in Anchors(sc.kind) : ~Supp2(a) /\ \A b \in Anchors(sc.kind) : Before(b, a, sc.kind) => Supp2(b)}
              ELSE {a \in Anchors(sc.kind) : ~Supp2(a)}
  /\ ph' = "done"
  /\ UNCHANGED <<sc, cls, rng, cls2, rng2>>

Finished == ph = "done" /\ UNCHANGED vars

Next == Classify \/ ComputeRange \/ Filter \/ Finished

Spec == Init /\ [][Next]_vars /\ WF_vars(Classify \/ ComputeRange \/ Filter)

Done == ph = "done"
Termination == <>Done

\* C07: exactly the diagnostics in scope that match are removed
Exact == Done => out = L1
\* a comment never adds a diagnostic, except that a once-per-file report may move
NeverAdds == (Done /\ ~Once(sc.kind)) => out \subseteq Anchors(sc.kind)
\* a non-matching list is the identity
NoMatchIdentity == (Done /\ ~ListMatches(sc.list, CodeOfKind(sc.kind))) =>
                      out = (IF Once(sc.kind) THEN {a \in Anchors(sc.kind) : \A b \in Anchors(sc.kind) : ~Before(b, a, sc.kind)} ELSE Anchors(sc.kind))

EmitInv == (Emit /\ Done) =>
   PrintT("@E " \o ToJson([kind |-> sc.kind, slot |-> sc.slot, slot2 |-> sc.slot2, list |-> sc.list, ld |-> sc.ld, cls |-> cls, expect |-> out,
                            base |-> (IF Once(sc.kind) THEN {a \in Anchors(sc.kind) : \A b \in Anchors(sc.kind) : ~Before(b, a, sc.kind)}
                                      ELSE Anchors(sc.kind))]))
=============================================================================
