---------------------------- MODULE IgnoreSetInd ----------------------------
(***************************************************************************)
(* Inductive argument for C16 beyond the bounds TLC explores (IgnoreSet.tla *)
(* is checked for histories of <= 4 add-operations): the representation    *)
(* invariant of util.IgnoreSet (per-token index = the markers of that      *)
(* token, minPos / maxPos = extremes of the marker bounds, 0 = unset, the  *)
(* flag is set as soon as anything was added) is inductive under Add and   *)
(* AddModuleIgnore, and implies Impl = Ref for every query - for *any*     *)
(* collection of markers over positions 1..N, however it was built.        *)
(* Abstraction: a marker with several codes is the set of its single-code  *)
(* markers (Contains cannot tell the difference); insertion order is       *)
(* dropped (Contains only asks for existence).                             *)
(* Checked with Apalache: Init => IndInv (length 0), IndInv /\ Next =>     *)
(* IndInv' (length 1, --init=IndInit), IndInv => Agree (length 0).         *)
(***************************************************************************)
EXTENDS Integers, FiniteSets

N == 5
Tokens == {"ALL", "IMM", "IMM01", "CTOR", "CTOR01", "UNK"}
QCodes == {"IMM01", "IMM02", "CTOR01", "CTOR", "UNK", "ZZZ"}
Pos == 1..N
QPos == 0..(N + 1)

\* @type: (Str) => Set(Str);
HierSet(c) == IF c = "IMM01" THEN {"ALL", "IMM", "IMM01"}
              ELSE IF c = "IMM02" THEN {"ALL", "IMM", "IMM02"}
              ELSE IF c = "CTOR01" THEN {"ALL", "CTOR", "CTOR01"}
              ELSE {"ALL", c}

VARIABLES
  \* @type: Set({tok: Str, s: Int, e: Int});
  markers,
  \* @type: Str -> Set({tok: Str, s: Int, e: Int});
  index,
  \* @type: Int;
  minPos,
  \* @type: Int;
  maxPos,
  \* @type: Set(Str);
  mod,
  \* @type: Bool;
  inited

AllMarkers == [tok : Tokens, s : Pos, e : Pos]

Init == /\ markers = {}
        /\ index = [t \in Tokens |-> {}]
        /\ minPos = 0 /\ maxPos = 0
        /\ mod = {}
        /\ inited = FALSE

Add(t, s, e) ==
  LET m == [tok |-> t, s |-> s, e |-> e] IN
  /\ markers' = markers \cup {m}
  /\ index' = [index EXCEPT ![t] = @ \cup {m}]
  /\ minPos' = IF minPos = 0 \/ s < minPos THEN s ELSE minPos
  /\ maxPos' = IF maxPos = 0 \/ e > maxPos THEN e ELSE maxPos
  /\ inited' = TRUE
  /\ UNCHANGED mod

AddModule(ts) ==
  /\ mod' = mod \cup ts
  /\ inited' = TRUE
  /\ UNCHANGED <<markers, index, minPos, maxPos>>

Next == \/ \E t \in Tokens, s \in Pos, e \in Pos : Add(t, s, e)
        \/ \E ts \in SUBSET Tokens : AddModule(ts)

\* util.IgnoreSet.Contains as implemented
Impl(c, p) ==
  IF ~inited THEN FALSE
  ELSE IF \E t \in HierSet(c) : t \in mod THEN TRUE
  ELSE IF minPos = 0 \/ p < minPos \/ p > maxPos THEN FALSE
  ELSE \E t \in HierSet(c) \cap Tokens : \E m \in index[t] : p >= m.s /\ p <= m.e

\* the property
Ref(c, p) == \E t \in HierSet(c) : t \in mod \/ \E m \in markers : m.tok = t /\ m.s <= p /\ p <= m.e

Agree == \A c \in QCodes, p \in QPos : Impl(c, p) = Ref(c, p)

TypeOK == /\ markers \in SUBSET AllMarkers
          /\ index \in [Tokens -> SUBSET AllMarkers]
          /\ minPos \in 0..N /\ maxPos \in 0..N
          /\ mod \in SUBSET Tokens
          /\ inited \in BOOLEAN
IndexOK == \A t \in Tokens : index[t] = {m \in markers : m.tok = t}
MinMaxOK == IF markers = {} THEN minPos = 0 /\ maxPos = 0
            ELSE /\ \A m \in markers : minPos <= m.s /\ m.e <= maxPos
                 /\ \E m \in markers : m.s = minPos
                 /\ \E m \in markers : m.e = maxPos
InitedOK == (markers # {} \/ mod # {}) => inited

IndInv == TypeOK /\ IndexOK /\ MinMaxOK /\ InitedOK
IndInit == IndInv
=============================================================================
