---------------------------- MODULE MCIgnoreSet ----------------------------
(* Model constants for the exhaustive C16 configurations (the alphabet the property names). *)
EXTENDS IgnoreSet
MCTokSeq == <<"ALL", "IMM", "IMM01", "IMM02", "CTOR01", "UNK">>
MCQCodeSeq == <<"IMM01", "IMM02", "CTOR01", "CTOR02", "CTOR", "UNK">>
=============================================================================
