------------------------------- MODULE Excerpt -------------------------------
(***************************************************************************)
(* The source excerpt of a rendered diagnostic (src/reporting/reporter.go: *)
(* readSourceLines, truncateString, calculateDisplayColumn).               *)
(*                                                                         *)
(* Abstract input : a file of nLines lines, the diagnostic at line lineNo, *)
(*   byte column col (1-based, as token.Position), the line being len      *)
(*   bytes long, display limit L; readable = the driver can read the file. *)
(* Abstract output: win = the set of line numbers shown; for the           *)
(*   diagnostic's line the shown text is                                   *)
(*       (pre ? "..." : "") ++ line[start..end) ++ (post ? "..." : "")     *)
(*   and caret = 1-based display column of the '^'.                        *)
(*                                                                         *)
(* L2: three steps ReadWindow -> Truncate -> PlaceCaret that follow the    *)
(* implementation's case analysis (three truncation regimes).              *)
(* L1: the property C19 (CaretOK, LenOK, WindowOK, Degrades).              *)
(* Deviations: "CaretBoundary" reproduces the pinned code's `<=` at the    *)
(* boundary col-1 = L-3 (defect D13), used to show that L1 is not vacuous  *)
(* and to attribute a known finding.                                       *)
(***************************************************************************)
EXTENDS Integers, TLC, Sequences

CONSTANTS L,           \* display limit (reporting.MaxLineLength = 200)
          Mode,        \* which input space Init enumerates: "trunc", "window" or "boundary"
          Deviations,  \* subset of {"CaretBoundary"}
          Emit         \* TRUE: print every terminal state as "@E ..." line

VARIABLES inp, pc, win, out

vars == <<inp, pc, win, out>>

Max(a, b) == IF a > b THEN a ELSE b
Min(a, b) == IF a < b THEN a ELSE b

None == [pre |-> FALSE, start |-> 0, end |-> 0, post |-> FALSE, caret |-> 0, shown |-> FALSE]

In(nl, ln, n, c, r) == inp = [nLines |-> nl, lineNo |-> ln, len |-> n, col |-> c, readable |-> r]
Near(x, S) == \E y \in S : x >= y - 3 /\ x <= y + 3

(* Input spaces (enumerated lazily by TLC, never built as one set):         *)
(*  trunc    - every line length 0..3L and every column 1..len+1, on the    *)
(*             middle line of a three-line file                             *)
(*  window   - file lengths 0..5 (and around 10 / 100: the line-number      *)
(*             gutter changes width) as read back from disk, diagnostic     *)
(*             lines 1..7, 8..10, 98..101 (also beyond the end), readable   *)
(*             or not, short/long line                                      *)
(*  boundary - lengths and columns within 3 of every regime boundary        *)
InitInput ==
  \/ /\ Mode = "trunc"
     /\ \E n \in 0..(3 * L) : \E c \in 1..(n + 1) : In(3, 2, n, c, TRUE)
  \/ /\ Mode = "window"
     /\ \E nl \in (0..5) \cup {9, 10, 11, 99, 100, 101}, ln \in (1..7) \cup {8, 9, 10, 98, 99, 100, 101}, n \in {0, 4, 3 * L}, c \in {1, 3}, r \in BOOLEAN :
          c <= n + 1 /\ In(nl, ln, n, c, r)
  \/ /\ Mode = "boundary"
     /\ \E n \in 0..(3 * L) :
          /\ Near(n, {0, L, L + 3, 2 * L - 6, 2 * L - 3, 2 * L, 3 * L})
          /\ \E c \in 1..(n + 1) :
               /\ Near(c, {1, L - 3, L - 2, L, n - L + 3, n - L + 4, (L - 3) \div 2, n, n + 1})
               /\ In(3, 2, n, c, TRUE)

Init == /\ InitInput
        /\ pc = "read"
        /\ win = {}
        /\ out = None

\* readSourceLines(filename, line, 2, 1)
ReadWindow ==
  /\ pc = "read"
  /\ win' = IF ~inp.readable \/ inp.nLines = 0 THEN {}
            ELSE LET lo == Max(1, inp.lineNo - 2)
                     hi == Min(inp.nLines, inp.lineNo + 1)
                 IN IF lo > inp.nLines THEN {} ELSE lo..hi
  /\ pc' = "trunc"
  /\ UNCHANGED <<inp, out>>

Pos0 == LET p == inp.col - 1 IN IF p < 0 THEN 0 ELSE IF p >= inp.len THEN inp.len - 1 ELSE p

FirstRegime == IF "CaretBoundary" \in Deviations THEN Pos0 <= L - 3 ELSE Pos0 < L - 3
LastRegime  == Pos0 >= inp.len - L + 3
Before == (L - 3) \div 2
After  == (L - 3) - Before

\* truncateString(line, L, col)
Truncate ==
  /\ pc = "trunc"
  /\ IF inp.lineNo \notin win THEN out' = None
     ELSE IF inp.len <= L
       THEN out' = [None EXCEPT !.end = inp.len, !.shown = TRUE]
     ELSE IF FirstRegime
       THEN out' = [None EXCEPT !.end = L - 3, !.post = TRUE, !.shown = TRUE]
     ELSE IF LastRegime
       THEN out' = [None EXCEPT !.pre = TRUE, !.start = inp.len - L + 3, !.end = inp.len, !.shown = TRUE]
     ELSE out' = [None EXCEPT !.pre = TRUE, !.post = TRUE, !.shown = TRUE,
                              !.start = Max(0, Pos0 - Before), !.end = Min(inp.len, Pos0 + After)]
  /\ pc' = "caret"
  /\ UNCHANGED <<inp, win>>

\* calculateDisplayColumn(line, col, L)
PlaceCaret ==
  /\ pc = "caret"
  /\ IF ~out.shown THEN UNCHANGED out
     ELSE IF inp.len <= L THEN out' = [out EXCEPT !.caret = inp.col]
     ELSE IF FirstRegime THEN out' = [out EXCEPT !.caret = inp.col]
     ELSE IF LastRegime THEN out' = [out EXCEPT !.caret = 4 + (Pos0 - (inp.len - L + 3))]
     ELSE out' = [out EXCEPT !.caret = 4 + Before]
  /\ pc' = "done"
  /\ UNCHANGED <<inp, win>>

Finished == pc = "done" /\ UNCHANGED vars

Next == ReadWindow \/ Truncate \/ PlaceCaret \/ Finished

Spec == Init /\ [][Next]_vars /\ WF_vars(ReadWindow \/ Truncate \/ PlaceCaret)

Done == pc = "done"
Termination == <>Done

(***************************************************************************)
(* L1 - the property                                                       *)
(***************************************************************************)
B(b) == IF b THEN 1 ELSE 0

\* original byte offset (0-based) of the byte displayed above the caret; -1 = the caret is under an ellipsis
UnderCaret == LET d == out.caret - 1 - 3 * B(out.pre)
              IN IF d < 0 THEN -1
                 ELSE IF out.start + d >= out.end /\ out.post THEN -1
                 ELSE out.start + d

CaretOK == (Done /\ out.shown /\ inp.len > 0) =>
              IF inp.col <= inp.len THEN UnderCaret = inp.col - 1
              ELSE UnderCaret \in {inp.len - 1, inp.len}    \* column one past the end of the line

LenOK == (Done /\ out.shown) =>
            /\ 0 <= out.start /\ out.start <= out.end /\ out.end <= inp.len
            /\ (out.end - out.start) + 3 * B(out.pre) + 3 * B(out.post) <= L + 3
            /\ (inp.len <= L => ~out.pre /\ ~out.post /\ out.start = 0 /\ out.end = inp.len)
            /\ (~out.pre => out.start = 0) /\ (~out.post => out.end = inp.len)

WindowOK == (Done /\ inp.readable /\ inp.lineNo <= inp.nLines) =>
               /\ win = {n \in 1..inp.nLines : inp.lineNo - 2 <= n /\ n <= inp.lineNo + 1}
               /\ out.shown

Degrades == (Done /\ (~inp.readable \/ inp.lineNo > inp.nLines)) => ~out.shown /\ inp.lineNo \notin win

EmitInv == (Emit /\ Done) =>
   PrintT("@E " \o ToString(<<inp.nLines, inp.lineNo, inp.len, inp.col, B(inp.readable),
                              IF win = {} THEN 0 ELSE CHOOSE n \in win : \A m \in win : n <= m,
                              IF win = {} THEN 0 ELSE CHOOSE n \in win : \A m \in win : n >= m,
                              B(out.shown), B(out.pre), out.start, out.end, B(out.post), out.caret>>))
=============================================================================
