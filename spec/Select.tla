------------------------------- MODULE Select -------------------------------
(***************************************************************************)
(* Which analyzers report (beyond the listed properties): the command line *)
(* of the multichecker has one boolean flag per analyzer (-NAME,           *)
(* -NAME=false).  golang.org/x/tools/go/analysis/internal/analysisflags:   *)
(*   if some flag is true, exactly the analyzers flagged true are kept;    *)
(*   else if some flag is false, all but those are kept; else all.         *)
(* Analyzers that a kept analyzer requires still run (config,              *)
(* annotationreader, ignorereader) but only kept analyzers report.         *)
(* The eight analyzers: three support analyzers that never report and the  *)
(* five checkers, one per category of Codes.tla.                           *)
(*                                                                         *)
(* L2: Parse -> Keep -> Report.  L1: the visible categories.               *)
(***************************************************************************)
EXTENDS Codes, TLC, Json, Integers

CONSTANTS Emit, Deviations     \* AllWhenAnyFalse: a false flag is ignored (everything is kept)

VARIABLES flags, ph, kept, cats

vars == <<flags, ph, kept, cats>>

Support == {"config", "annotationreader", "ignorereader"}
Checkers == {AnalyzerOf(c) : c \in Cats}
Analyzers == Support \cup Checkers
Vals == {"unset", "true", "false"}

Init == flags \in [Analyzers -> Vals] /\ ph = "keep" /\ kept = {} /\ cats = {}

Keep ==
  /\ ph = "keep"
  /\ kept' = IF "AllWhenAnyFalse" \in Deviations /\ \E a \in Analyzers : flags[a] = "false" THEN Analyzers
             ELSE IF \E a \in Analyzers : flags[a] = "true" THEN {a \in Analyzers : flags[a] = "true"}
             ELSE {a \in Analyzers : flags[a] # "false"}
  /\ ph' = "report"
  /\ UNCHANGED <<flags, cats>>

Report ==
  /\ ph = "report"
  /\ cats' = {c \in Cats : AnalyzerOf(c) \in kept}
  /\ ph' = "done"
  /\ UNCHANGED <<flags, kept>>

Finished == ph = "done" /\ UNCHANGED vars
Next == Keep \/ Report \/ Finished
Spec == Init /\ [][Next]_vars /\ WF_vars(Keep \/ Report)

Done == ph = "done"
Termination == <>Done

AnyTrue == \E a \in Analyzers : flags[a] = "true"
L1 == IF AnyTrue THEN {c \in Cats : flags[AnalyzerOf(c)] = "true"} ELSE {c \in Cats : flags[AnalyzerOf(c)] # "false"}
Exact == Done => cats = L1
NoFlagsMeansAll == (Done /\ \A a \in Analyzers : flags[a] = "unset") => cats = Cats
SupportOnlyIsSilent == (Done /\ AnyTrue /\ \A a \in Checkers : flags[a] # "true") => cats = {}
\* flags of the support analyzers never remove a category unless they are the only ones selected
SupportFalseIsNeutral == (Done /\ ~AnyTrue /\ \A a \in Checkers : flags[a] = "unset") => cats = Cats

EmitInv == (Emit /\ Done) => PrintT("@E " \o ToJson([flags |-> flags, cats |-> cats]))
=============================================================================
