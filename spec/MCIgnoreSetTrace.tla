-------------------------- MODULE MCIgnoreSetTrace --------------------------
(* Model constants for trace validation: the alphabet used by `vh ignoreset-record`. *)
EXTENDS IgnoreSetTrace
MCTokSeq == <<"ALL", "IMM", "IMM01", "IMM02", "CTOR", "CTOR01", "TONL", "TONL01", "PKGO02", "IMPL03", "UNK">>
MCQCodeSeq == <<"IMM01", "IMM02", "IMM03", "CTOR01", "CTOR02", "CTOR", "TONL01", "TONL02", "PKGO02", "PKGO01", "IMPL03", "UNK", "ZZZ">>
=============================================================================
