-------------------------------- MODULE Files --------------------------------
(***************************************************************************)
(* File exclusion (config.ShouldSkipFile / FilterFiles, consulted by the   *)
(* annotation reader, the ignore reader and every checker; the testonly    *)
(* checker additionally skips _test.go files) - property C14.              *)
(*                                                                         *)
(* Abstract program: package p has the regular file a.go with one          *)
(* violation A1 (a write to the imported immutable d.T).  A second file X  *)
(* of class cls carries the content flags                                  *)
(*    ann  - X declares an @immutable type XT that a.go mutates (A2) and a *)
(*           @testonly function XF that a.go calls (A3);                   *)
(*           possible when X is a file of another package that p imports   *)
(*           (classes tdpath, genpath) or a regular sibling file           *)
(*    viol - X contains violations X1 (IMM01) and X2 (TONL02 call) inside  *)
(*           a function and X3 (TONL02 call in a package-level initialiser)*)
(*    ign  - X starts with a file-level `@ignore ALL`                      *)
(* a.go also declares a type AI with `@implements lib.I` without importing *)
(* m/lib, while X does import it: imports are file-scoped, so A4 = IMPL01  *)
(* on AI whatever X is (deviation PkgWideImports: the package's imports    *)
(* bind the qualifier, A4w = IMPL03 instead).                              *)
(* Classes: sibling (regular file of p), test (in-package _test.go),       *)
(* xtest (external test package), tdpath (a package under a directory      *)
(* whose path contains "testdata"), genpath (a package under zzGen/),      *)
(* genfile / genfirst (a regular file of p itself whose *name* contains    *)
(* zzGen and sorts after / before a.go), gentest (an in-package _test.go   *)
(* file whose name contains zzGen: excluded by name *and* a test file).    *)
(* Configuration: scan (scan-tests), paths (exclude-paths items).          *)
(*                                                                         *)
(* L2: the three readers, each iterating over the files that the filter    *)
(* lets through.  L1: Expected.  Deviations: AnnNoFilter, IgnNoFilter,     *)
(* CheckNoFilter, FuncAnnNoFilter (one reader or one of its loops forgets  *)
(* the filter), TonlInTests, FirstFile                                     *)
(* (the path filter is evaluated on the package's first file only).        *)
(***************************************************************************)
EXTENDS Integers, Sequences, FiniteSets, TLC, Json

CONSTANTS Deviations, Emit

VARIABLES sc, ph, annSeen, fnAnnSeen, ignSeen, diags

vars == <<sc, ph, annSeen, fnAnnSeen, ignSeen, diags>>

Classes == {"sibling", "test", "xtest", "tdpath", "genpath", "genfile", "genfirst", "gentest", "testdecl", "linehdr"}
\* linehdr: X is p/b.go on disk and starts with `//line zzGen/b.go:1` (what cgo and generators emit): its name, for exclusion and for
\* the positions of its diagnostics alike, is the one the directive gives (deviation PhysicalName: the name on disk is matched)
\* testdecl: X is an in-package _test.go file that declares the annotated XT; an external test file of the same directory mutates it (A2t).
\* exclude-paths entries are case-sensitive substrings: the directory / file-name token of the scenarios is spelled zzGen
PathSets == {{}, {"testdata"}, {"zzGen"}, {"testdata", "zzGen"}, {"zzGen", "zzGenerated"}, {"zzGenerated"}, {"zzGen/q"}}
\* zzGen/q spans the boundary between a directory and a file name: it matches zzGen/q.go (class genpath) only
\* zzGenerated matches no file of the scenarios; next to zzGen it is a longer entry that *contains* the shorter one

Valid(s) == /\ (s.ann => s.cls \in {"sibling", "tdpath", "genpath", "genfile", "genfirst", "testdecl", "linehdr"})
            /\ (s.cls = "testdecl" => s.ann /\ ~s.viol /\ ~s.ign)
            /\ (s.cls = "sibling" => TRUE)

Init == /\ sc \in {s \in [cls : Classes, ann : BOOLEAN, viol : BOOLEAN, ign : BOOLEAN, scan : BOOLEAN, paths : PathSets] : Valid(s)}
        /\ ph = "ann" /\ annSeen = FALSE /\ fnAnnSeen = FALSE /\ ignSeen = FALSE /\ diags = {}

IsTest(cls) == cls \in {"test", "xtest", "gentest", "testdecl"}
Skip == \/ IsTest(sc.cls) /\ ~sc.scan
        \/ sc.cls = "tdpath" /\ "testdata" \in sc.paths
        \/ sc.cls \in {"genpath", "genfile", "genfirst", "gentest", "linehdr"} /\ "zzGen" \in sc.paths
        \/ sc.cls = "genpath" /\ "zzGen/q" \in sc.paths

(* L1 *)
\* A5: a.go's type Box claims d.I; the only method M of Box has another signature and is declared in file X (when X belongs to
\* package p at all). The finding is anchored at the type, in a.go, wherever the method is (deviation ImplAtMethod: at the method).
InPkg == sc.cls \notin {"tdpath", "genpath", "xtest"}
Expected == {"A1", "A4", "A5"}
            \cup (IF sc.ann /\ ~Skip THEN (IF sc.cls = "testdecl" THEN {"A2t"} ELSE {"A2", "A3"}) ELSE {})
            \cup (IF sc.viol /\ ~Skip /\ ~sc.ign THEN {"X1"} ELSE {})
            \cup (IF sc.viol /\ ~Skip /\ ~sc.ign /\ ~IsTest(sc.cls) THEN {"X2", "X3"} ELSE {})

(* L2 *)
\* the filter as each reader applies it ("FirstFile": a path entry is looked up on the first file of the package only -
\* for the classes tdpath / genpath X is the only file of its package, for the others a.go comes first)
Filtered(reader) ==
  IF reader \in Deviations THEN FALSE
  ELSE IF "PhysicalName" \in Deviations /\ sc.cls = "linehdr" THEN FALSE
  ELSE IF "FirstFile" \in Deviations /\ sc.cls = "genfile" THEN FALSE     \* a.go comes first and is not excluded
  ELSE IF "TestSuffixFirst" \in Deviations /\ IsTest(sc.cls) THEN ~sc.scan \* the _test.go suffix is looked at before exclude-paths
  ELSE Skip

ReadAnnotations ==
  /\ ph = "ann"
  /\ annSeen' = (sc.ann /\ ~Filtered("AnnNoFilter"))           \* the loop over type declarations
  /\ fnAnnSeen' = (sc.ann /\ ~Filtered("FuncAnnNoFilter"))     \* the loop over function / method declarations
  /\ ph' = "ign"
  /\ UNCHANGED <<sc, ignSeen, diags>>

ReadIgnores ==
  /\ ph = "ign"
  /\ ignSeen' = (sc.ign /\ ~Filtered("IgnNoFilter"))
  /\ ph' = "check"
  /\ UNCHANGED <<sc, annSeen, fnAnnSeen, diags>>

Check ==
  /\ ph = "check"
  /\ diags' = {"A1"}
              \cup (IF "ImplAtMethod" \in Deviations /\ InPkg THEN {"A5x"} ELSE {"A5"})
              \cup (IF "PkgWideImports" \in Deviations /\ sc.cls \notin {"tdpath", "genpath", "xtest"} THEN {"A4w"} ELSE {"A4"})
              \* FactsWithoutTestAnns: what a test file declares is left out of the exported fact (the external test package sees nothing)
              \cup (IF annSeen /\ sc.cls = "testdecl" /\ ~("FactsWithoutTestAnns" \in Deviations) THEN {"A2t"} ELSE {})
              \cup (IF annSeen /\ sc.cls # "testdecl" THEN {"A2"} ELSE {})
              \cup (IF fnAnnSeen /\ sc.cls # "testdecl" THEN {"A3"} ELSE {})
              \cup (IF sc.viol /\ ~Filtered("CheckNoFilter") /\ ~ignSeen THEN {"X1"} ELSE {})
              \cup (IF sc.viol /\ ~Filtered("CheckNoFilter") /\ ~ignSeen /\ (~IsTest(sc.cls) \/ "TonlInTests" \in Deviations) THEN {"X2", "X3"} ELSE {})
              \cup (IF sc.viol /\ ~Filtered("CheckNoFilter") /\ ~ignSeen /\ IsTest(sc.cls) /\ "TonlPkgLevelInTests" \in Deviations THEN {"X3"} ELSE {})
  /\ ph' = "done"
  /\ UNCHANGED <<sc, annSeen, fnAnnSeen, ignSeen>>

Finished == ph = "done" /\ UNCHANGED vars
Next == ReadAnnotations \/ ReadIgnores \/ Check \/ Finished
Spec == Init /\ [][Next]_vars /\ WF_vars(ReadAnnotations \/ ReadIgnores \/ Check)

Done == ph = "done"
Termination == <>Done

Exact == Done => diags = Expected
\* (1) no diagnostic is located in a skipped file
NoneInSkipped == (Done /\ Skip) => diags \cap {"X1", "X2", "X3", "A5x"} = {}
\* (2) what a skipped file contains does not influence the other files
Inert == (Done /\ Skip) => diags = {"A1", "A4", "A5"}
\* (3) test files never receive TONL diagnostics, but everything else when scan-tests is on
TestFiles == (Done /\ IsTest(sc.cls)) => /\ "X2" \notin diags /\ "X3" \notin diags /\ "A3" \notin diags
                                          /\ (sc.scan /\ ~Skip /\ sc.viol /\ ~sc.ign => "X1" \in diags)

EmitInv == (Emit /\ Done) => PrintT("@E " \o ToJson([sc |-> sc, skip |-> Skip, expect |-> Expected]))
=============================================================================
