------------------------------- MODULE Output -------------------------------
(***************************************************************************)
(* Output channel and exit status of the standalone driver (beyond the     *)
(* listed properties; C17 only states the text-mode exit status).          *)
(* A run names a non-empty set of packages, each of one kind:              *)
(*    clean   - analysed, nothing to report                                *)
(*    diags   - analysed, at least one diagnostic                          *)
(*    broken  - does not type-check: every analyzer is skipped with an     *)
(*              error for that package                                     *)
(* mode: text (default) or json (-json).                                   *)
(*                                                                         *)
(*   exit status  1 if some package is broken, else 3 if text mode and a   *)
(*                diagnostic was printed, else 0                           *)
(*   text mode    diagnostics and errors on stderr, nothing on stdout      *)
(*   json mode    one JSON object on stdout: package -> analyzer -> list   *)
(*                of diagnostics or {"error": ...}; `{}` when there is     *)
(*                nothing to say; type errors still go to stderr           *)
(***************************************************************************)
EXTENDS TLC, Json, FiniteSets, Integers, Sequences

CONSTANT Emit

VARIABLES run, ph, rc, out

vars == <<run, ph, rc, out>>

Kinds == {"clean", "diags", "broken"}

Init == /\ run \in [mode : {"text", "json"}, pkgs : (SUBSET Kinds) \ {{}}]
        /\ ph = "analyse" /\ rc = -1
        /\ out = [stdoutTree : {}, stderrDiags : FALSE, stderrErrors : FALSE]

Analyse ==
  /\ ph = "analyse"
  /\ out' = [stdoutTree   |-> IF run.mode = "json" THEN {k \in run.pkgs : k # "clean"} ELSE {},     \* packages with an entry in the tree
             stderrDiags  |-> run.mode = "text" /\ "diags" \in run.pkgs,
             stderrErrors |-> "broken" \in run.pkgs]
  /\ ph' = "exit"
  /\ UNCHANGED <<run, rc>>

Exit ==
  /\ ph = "exit"
  /\ rc' = IF "broken" \in run.pkgs THEN 1 ELSE IF run.mode = "text" /\ out.stderrDiags THEN 3 ELSE 0
  /\ ph' = "done"
  /\ UNCHANGED <<run, out>>

Finished == ph = "done" /\ UNCHANGED vars
Next == Analyse \/ Exit \/ Finished
Spec == Init /\ [][Next]_vars /\ WF_vars(Analyse \/ Exit)
Done == ph = "done"
Termination == <>Done

\* C17's clause, as a consequence: in text mode without broken packages the status is non-zero exactly when something is printed
TextStatus == (Done /\ run.mode = "text" /\ "broken" \notin run.pkgs) => ((rc # 0) <=> out.stderrDiags)
JsonNeverThree == (Done /\ run.mode = "json") => rc \in {0, 1}
StdoutOnlyJson == (Done /\ run.mode = "text") => out.stdoutTree = {}

EmitInv == (Emit /\ Done) => PrintT("@E " \o ToJson([mode |-> run.mode, pkgs |-> run.pkgs, rc |-> rc, tree |-> out.stdoutTree,
                                                      stderrDiags |-> out.stderrDiags, stderrErrors |-> out.stderrErrors]))
=============================================================================
