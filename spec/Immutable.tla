------------------------------ MODULE Immutable ------------------------------
(***************************************************************************)
(* The @immutable checker (src/immutable/checker.go) as a walk over the    *)
(* top-level declarations of the files of one package.                     *)
(*                                                                         *)
(* Abstract program.  Package d declares                                   *)
(*     type T struct { X int; Xs []int; Mp map[string]int; M int }         *)
(*     type C int            type U struct{...} (never annotated)          *)
(* with the annotation record ann on T (and @immutable on C iff ann.imm).  *)
(* The package under analysis, pkg, is d itself or u (which imports d).    *)
(* It consists of files; a file is a sequence of containers (top-level     *)
(* declarations), each holding exactly one tagged statement:               *)
(*   kind  ctor1 / ctor2  function named NewT / MakeT                      *)
(*         other          any other function                               *)
(*         pmeth / vmeth  pointer / value receiver method of T (d only)    *)
(*         cmeth          pointer receiver method of C (d only)            *)
(*         ometh          method of another, un-annotated type             *)
(*         init           func init()                                      *)
(*         pkgvar         var _ = func() int { S; return 0 }()             *)
(*   stmt  (starPlain: `*r = v` on a plain *int named like the receivers)   *)
(*         the candidate statement, via the parameter/global p or the      *)
(*         receiver r, p spelled *T or T, inside a nesting construct,      *)
(*         the type written with spelling sp (C13).                        *)
(*                                                                         *)
(* L2: BeginFile / EnterDecl / Visit / LeaveDecl / EndFile with the walk   *)
(* state cur (enclosing top-level function, "" outside functions) and recv *)
(* (receiver type of the enclosing method) - reset on LeaveDecl.           *)
(* L1: Verdict(c), a function of the container alone (which is also the    *)
(* model-level content of C12: verdicts cannot depend on layout).          *)
(* Deviations (named, switchable, used for non-vacuity and attribution):   *)
(*   LeakWalkState - cur/recv survive the end of a declaration and of a    *)
(*                   file, and are undefined before the first function     *)
(*                   (pinned code: nil dereference -> crash)               *)
(*   CtorAnyPkg    - the constructor exemption ignores which package the   *)
(*                   enclosing function belongs to                         *)
(*   NoUnalias     - a use spelled through a type alias is invisible       *)
(*   CtorAnyType   - a constructor of one type is exempt for every          *)
(*                   annotated type of its package                         *)
(*   GroupDocLeaks - the doc comment of T reaches the next, undocumented   *)
(*                   spec of its type group                                *)
(*   OneTypePerCtor - a constructor function exempts one type only       *)
(*   MutableByFieldName - @mutable fields indexed without their type     *)
(*   RecvNameMemo  - what is known about T's receiver (its name) is kept   *)
(*                   from the first method of T that is walked             *)
(*   RecvBySyntax  - a receiver spelled *TA / *(T) is not recognised as T  *)
(*   CtorByBareName - the exemption is looked up under the current package *)
(*                   and the bare type name: u's own type T (constructors  *)
(*                   NewT, MakeT) exempts writes to d.T inside u.NewT      *)
(***************************************************************************)
EXTENDS Integers, Sequences, FiniteSets, TLC, Json

CONSTANTS Mode,        \* "single" | "spell" | "seq2" | "seq3"
          Deviations,
          Emit

VARIABLES prog,   \* [ann, pkg, files]
          fi, ci, ph, cur, recv, diags,
          rname   \* the receiver *name* of the first method of T the walk of the package met (read by the RecvNameMemo deviation only)

vars == <<prog, fi, ci, ph, cur, recv, diags, rname>>
NameOfRecv(c) == CASE c.kind = "pmethQ" -> "q" [] c.kind = "pmeth0" -> "_" [] c.kind \in {"pmeth", "vmeth"} -> "r" [] OTHER -> "none"

Kinds  == {"ctor1", "ctor2", "other", "pmeth", "pmethQ", "pmeth0", "vmeth", "cmeth", "ometh", "init", "pkgvar"}
\* pmethQ: a pointer method of T whose receiver is called q (all others are called r); pmeth0: a pointer method with an unnamed receiver
Stmts  == {"assignX", "assignM", "multiX", "compoundX", "compoundM", "incX", "decX", "incM", "indexXs", "indexMp",
           "readX", "onU", "onTG", "onPkgVar", "onT2M", "local", "recvAssign", "recvInc", "recvDec", "starPlain", "starPlainInc",
           "onHidden",   \* d.Hidden().X = v : hidden is an unexported type of d (@immutable iff T is) handed out by an exported function
           "onT2"}   \* q.X = v with q *T2, a second @immutable type of d with `@constructor NewT2` (iff T is @immutable)
Nests  == {"none", "if", "else", "for", "range", "switch", "select", "funclit", "defer", "go", "label",
           "funcassign", "funcvar", "funcarg", "funcfield", "block", "ifinit", "typeswitch"}
Spells == {"direct", "alias", "alias3", "chain", "ptralias", "ptrchain", "ptrofalias", "rename", "paren"}
\* chain: type TA2 = TA (alias of an alias); ptrchain: type TH = TP (alias of an alias of *T); ptrofalias: type TPA = *TA
\* "fnalias": the type is written through an alias R declared inside the function body; several functions of a package
\* may declare the same local name R for different types (mode "localalias")

Anns == [imm : BOOLEAN, ctors : {<<>>, <<"NewT">>, <<"NewT", "MakeT">>}, mut : BOOLEAN, noise : BOOLEAN]

Range(s) == {s[i] : i \in 1..Len(s)}

Cont(k, s, v, p, n, sp) == [kind |-> k, stmt |-> s, via |-> v, ptr |-> p, nest |-> n, sp |-> sp]

(* which containers exist in Go at all (the concretisation compiles exactly these) *)
Valid(c, pkg) ==
  /\ (c.kind \in {"pmeth", "pmethQ", "pmeth0", "vmeth", "cmeth"} => pkg = "d")
  /\ (c.via = "r" => c.kind \in {"pmeth", "pmethQ", "vmeth"})
  /\ (c.stmt = "recvAssign" => c.kind \in {"pmeth", "pmethQ"} /\ c.via = "r")
  /\ (c.kind = "pmethQ" => c.stmt \in {"recvAssign", "assignX", "readX"} /\ c.nest = "none" /\ c.sp = "direct")
  /\ (c.kind = "pmeth0" => c.stmt \in {"assignX", "readX"} /\ c.via = "p" /\ c.nest = "none" /\ c.sp = "direct")
  /\ (c.kind = "cmeth" <=> c.stmt \in {"recvInc", "recvDec"})
  /\ (c.kind = "cmeth" => c.via = "p" /\ c.ptr)
  /\ (c.via = "r" => c.ptr = (c.kind \in {"pmeth", "pmethQ"}))
  /\ (c.stmt \in {"onT2", "onHidden", "local", "recvInc", "recvDec", "starPlain", "starPlainInc"} => c.ptr /\ c.sp = "direct" /\ c.via = "p")
  /\ (c.stmt = "onU" => c.ptr /\ c.sp \in {"direct", "fnalias"} /\ c.via = "p")
  \* onTG: a write to d.TG, the undocumented spec that follows T inside one `type ( ... )` group (T's doc is not TG's)
  \* onT2M: a write to the field M of T2; M is @mutable in T2 exactly when it is in T (two types of one package share a @mutable field name)
  /\ (c.stmt = "onT2M" => c.ptr /\ c.sp = "direct" /\ c.via = "p" /\ c.kind \notin {"pmethQ", "pmeth0"})
  \* onPkgVar: a write to a package-level variable of d (d.Counter = n): a qualified identifier, not a field selection
  /\ (c.stmt = "onPkgVar" => c.ptr /\ c.sp = "direct" /\ c.via = "p" /\ c.kind \notin {"pmethQ", "pmeth0"})
  /\ (c.stmt = "onTG" => c.ptr /\ c.sp = "direct" /\ c.via = "p" /\ c.kind \notin {"pmeth", "pmethQ", "pmeth0", "vmeth", "cmeth"})
  /\ (c.sp = "fnalias" => c.ptr /\ c.via = "p" /\ c.kind \in {"ctor1", "other", "init", "ometh"})
  \* `*r = v` on a plain *int that is merely *named* like the receivers of the methods (all receivers are called r)
  /\ (c.stmt \in {"starPlain", "starPlainInc"} => c.kind \in {"ctor1", "ctor2", "other", "init", "pkgvar", "ometh"})
  /\ (c.via = "r" => c.sp \in {"direct", "alias", "paren"})    \* the receiver type itself may be spelled *TA or *(T)
  /\ (c.sp \in {"ptralias", "ptrchain", "ptrofalias"} => c.ptr)
  /\ (c.sp \in {"rename", "alias3"} => pkg = "u")

FnName(c) == CASE c.kind = "ctor1" -> "NewT" [] c.kind = "ctor2" -> "MakeT" [] c.kind = "init" -> "init"
               [] c.kind = "pkgvar" -> "" [] OTHER -> "fn"
RecvOf(c) == CASE c.kind \in {"pmeth", "pmethQ", "pmeth0", "vmeth"} -> "T" [] c.kind = "cmeth" -> "C" [] c.kind = "ometh" -> "O" [] OTHER -> ""

WriteCode(s) == CASE s \in {"assignX", "assignM", "multiX", "recvAssign", "onT2", "onT2M", "onHidden"} -> "IMM01"
                  [] s \in {"compoundX", "compoundM"} -> "IMM02"
                  [] s \in {"incX", "decX", "incM", "recvInc", "recvDec"} -> "IMM03"
                  [] s \in {"indexXs", "indexMp"} -> "IMM04"
                  [] OTHER -> "none"
OnMutableField(s) == s \in {"assignM", "compoundM", "incM", "onT2M"}

(***************************************************************************)
(* L1: the property, per container                                         *)
(***************************************************************************)
Verdict(c, ann, pkg) ==
  IF /\ ann.imm
     /\ WriteCode(c.stmt) # "none"
     /\ ~(OnMutableField(c.stmt) /\ ann.mut)
     /\ ~(c.stmt \notin {"onT2", "onT2M", "onHidden"} /\ pkg = "d" /\ FnName(c) \in Range(ann.ctors) /\ c.kind \in {"ctor1", "ctor2"})
  THEN WriteCode(c.stmt) ELSE "none"     \* NewT / MakeT are constructors of T, not of T2

Keys(p) == UNION {{<<f, i>> : i \in 1..Len(p.files[f])} : f \in 1..Len(p.files)}
L1(p) == {<<k[1], k[2], Verdict(p.files[k[1]][k[2]], p.ann, p.pkg)>> : k \in {k \in Keys(p) : Verdict(p.files[k[1]][k[2]], p.ann, p.pkg) # "none"}}

(***************************************************************************)
(* Program spaces (enumerated lazily in Init)                              *)
(***************************************************************************)
OneFile(c) == <<<<c>>>>
UniqueCtors(fs) ==
  LET all == UNION {{<<f, i>> : i \in 1..Len(fs[f])} : f \in 1..Len(fs)}
  IN \A k \in {"ctor1", "ctor2"} : Cardinality({x \in all : fs[x[1]][x[2]].kind = k}) <= 1

SeqStmts == {"assignX", "incX", "readX", "assignM", "starPlain", "onT2", "onTG"}     \* (onHidden only in the single mode)
SeqAnns  == {a \in Anns : a.imm /\ ~a.noise /\ a.ctors # <<"NewT", "MakeT">>}
SeqCont(pkg) == {c \in {Cont(k, s, "p", TRUE, "none", "direct") : k \in Kinds \ {"cmeth", "ometh", "ctor2"}, s \in SeqStmts}
                          \cup {Cont(k, "recvAssign", "r", TRUE, "none", "direct") : k \in {"pmeth", "pmethQ"}} : Valid(c, pkg)}

Splits(cs) ==  \* distribute a sequence of containers over one or two files, keeping order
  {<<cs>>} \cup {<<SubSeq(cs, 1, k), SubSeq(cs, k + 1, Len(cs))>> : k \in 1..(Len(cs) - 1)}

InitProg ==
  \/ /\ Mode = "single"
     /\ \E ann \in Anns, pkg \in {"d", "u"}, k \in Kinds, s \in Stmts, v \in {"p", "r"}, p \in BOOLEAN, n \in Nests :
          /\ Valid(Cont(k, s, v, p, n, "direct"), pkg)
          /\ prog = [ann |-> ann, pkg |-> pkg, files |-> OneFile(Cont(k, s, v, p, n, "direct"))]
  \/ /\ Mode = "single0"   \* the slice of "single" without nesting (used for the non-vacuity runs of the deviations)
     /\ \E ann \in {a \in Anns : ~a.noise}, pkg \in {"d", "u"}, k \in Kinds, s \in Stmts, v \in {"p", "r"}, p \in BOOLEAN :
          /\ Valid(Cont(k, s, v, p, "none", "direct"), pkg)
          /\ prog = [ann |-> ann, pkg |-> pkg, files |-> OneFile(Cont(k, s, v, p, "none", "direct"))]
  \/ /\ Mode = "spell"
     /\ \E ann \in {a \in Anns : ~a.noise}, pkg \in {"d", "u"}, k \in {"ctor1", "other", "init", "ometh"},
          s \in Stmts \ {"onU", "onTG", "onPkgVar", "onT2M", "local", "recvAssign", "recvInc", "recvDec"}, p \in BOOLEAN, sp \in Spells :
          /\ Valid(Cont(k, s, "p", p, "none", sp), pkg)
          /\ prog = [ann |-> ann, pkg |-> pkg, files |-> OneFile(Cont(k, s, "p", p, "none", sp))]
  \/ /\ Mode = "spell"     \* ... and every spelling of a method's receiver type
     /\ \E ann \in {a \in Anns : ~a.noise}, k \in {"pmeth", "vmeth"}, s \in {"recvAssign", "assignX", "incX", "indexXs"}, sp \in {"alias", "paren"} :
          /\ Valid(Cont(k, s, "r", k = "pmeth", "none", sp), "d")
          /\ prog = [ann |-> ann, pkg |-> "d", files |-> OneFile(Cont(k, s, "r", k = "pmeth", "none", sp))]
  \/ /\ Mode = "localalias"   \* C13: two functions declare the same local alias name for different types
     /\ \E ann \in {a \in Anns : a.imm /\ ~a.noise}, pkg \in {"d", "u"}, k1 \in {"other", "init"}, k2 \in {"other", "ctor1", "ometh"},
          s1 \in {"onU", "assignX"}, s2 \in {"onU", "assignX", "incX", "indexXs"} :
          /\ s1 # s2
          /\ prog = [ann |-> ann, pkg |-> pkg, files |-> <<<<Cont(k1, s1, "p", TRUE, "none", "fnalias"), Cont(k2, s2, "p", TRUE, "none", "fnalias")>>>>]
  \/ /\ Mode = "seq2"
     /\ \E ann \in SeqAnns, pkg \in {"d", "u"} : \E c1 \in SeqCont(pkg), c2 \in SeqCont(pkg) :
          \E fs \in Splits(<<c1, c2>>) : UniqueCtors(fs) /\ prog = [ann |-> ann, pkg |-> pkg, files |-> fs]
  \/ /\ Mode = "seq3"
     /\ \E ann \in SeqAnns, pkg \in {"d", "u"} : \E c1 \in SeqCont(pkg), c2 \in SeqCont(pkg), c3 \in SeqCont(pkg) :
          \E fs \in Splits(<<c1, c2, c3>>) : UniqueCtors(fs) /\ prog = [ann |-> ann, pkg |-> pkg, files |-> fs]

Init == /\ InitProg
        /\ fi = 1 /\ ci = 0 /\ ph = "begin"
        /\ cur = "?" /\ recv = "?"      \* "?" = never assigned (the pinned code's nil pointer)
        /\ rname = "none"
        /\ diags = {}

Leak == "LeakWalkState" \in Deviations

CurC == prog.files[fi][ci]

BeginFile ==
  /\ ph = "begin"
  /\ IF Leak THEN UNCHANGED <<cur, recv>> ELSE cur' = "" /\ recv' = ""
  /\ ci' = 1 /\ ph' = "enter"
  /\ UNCHANGED <<prog, fi, diags, rname>>

\* a FuncDecl sets the walk context; a GenDecl (pkgvar) does not
EnterDecl ==
  /\ ph = "enter" /\ ci <= Len(prog.files[fi])
  /\ IF CurC.kind = "pkgvar" THEN UNCHANGED <<cur, recv>>
     ELSE /\ cur' = FnName(CurC)
          \* RecvBySyntax: the receiver type is read off the source text, an alias or a parenthesised type is not recognised
          /\ recv' = IF "RecvBySyntax" \in Deviations /\ CurC.via = "r" /\ CurC.sp # "direct" THEN "" ELSE RecvOf(CurC)
  /\ ph' = "visit"
  /\ rname' = IF rname = "none" /\ NameOfRecv(CurC) # "none" THEN NameOfRecv(CurC) ELSE rname
  /\ UNCHANGED <<prog, fi, ci, diags>>

\* what the checker decides for the statement, from the walk state only
TwinCtors == {"NewT", "MakeT"}
Seen(c) == ~("NoUnalias" \in Deviations /\ c.sp \in {"alias", "alias3", "chain", "ptralias", "ptrchain", "ptrofalias", "fnalias"})
VisitVerdict(c) ==
  LET code == WriteCode(c.stmt)
      ownPkg == prog.pkg = "d" \/ "CtorAnyPkg" \in Deviations
      ctorsOfType == IF c.stmt \in {"onT2", "onT2M"} /\ ~("CtorAnyType" \in Deviations) THEN {"NewT2"}
                     ELSE IF c.stmt = "onHidden" THEN {} ELSE Range(prog.ann.ctors)
      \* when package u has a function NewT / MakeT it also declares a type of its own called T with those constructors (TwinCtors)
      twinExempt == "CtorByBareName" \in Deviations /\ prog.pkg = "u" /\ cur \in TwinCtors
      \* d also declares T3 after T, with NewT as its constructor too (NewT builds both).
      \* OneTypePerCtor: a constructor function is remembered for one type only, the one read last (T3)
      exempt == ((ownPkg /\ cur \in ctorsOfType) \/ twinExempt) /\ ~("OneTypePerCtor" \in Deviations /\ cur = "NewT" /\ c.stmt \notin {"onT2", "onT2M"})
  IN IF c.stmt \in {"starPlain", "starPlainInc"}
       THEN (IF prog.ann.imm /\ recv \in {"T", "C"} /\ ~exempt THEN (IF c.stmt = "starPlain" THEN "IMM01" ELSE "IMM03") ELSE "none")
     ELSE IF c.stmt = "onTG" THEN (IF "GroupDocLeaks" \in Deviations /\ prog.ann.imm THEN "IMM01" ELSE "none")
     ELSE IF ~prog.ann.imm \/ code = "none" THEN "none"
     ELSE IF c.stmt \in {"recvAssign", "recvInc", "recvDec"}
       \* RecvNameMemo: the receiver name recognised for T is the one of the first method of T that was walked
       THEN (IF recv \in {"T", "C"} /\ ~exempt /\ ~("RecvNameMemo" \in Deviations /\ c.stmt = "recvAssign" /\ rname # NameOfRecv(c)) THEN code ELSE "none")
     ELSE IF ~Seen(c) THEN "none"
     ELSE IF exempt THEN "none"
     \* MutableByFieldName: the @mutable index keeps one entry per (package, field name): the first type (T) keeps it, T2 loses it
     ELSE IF OnMutableField(c.stmt) /\ prog.ann.mut /\ ~("MutableByFieldName" \in Deviations /\ c.stmt = "onT2M") THEN "none"
     ELSE code

Visit ==
  /\ ph = "visit"
  /\ IF cur = "?" /\ prog.ann.imm /\ WriteCode(CurC.stmt) # "none" /\ CurC.stmt \notin {"recvAssign", "recvInc", "recvDec"} /\ Seen(CurC)
       THEN diags' = {<<0, 0, "CRASH">>}     \* dereference of the never-assigned context
       ELSE LET v == VisitVerdict(CurC) IN
            diags' = IF v = "none" \/ <<0, 0, "CRASH">> \in diags THEN diags ELSE diags \cup {<<fi, ci, v>>}
  /\ ph' = "leave"
  /\ UNCHANGED <<prog, fi, ci, cur, recv, rname>>

LeaveDecl ==
  /\ ph = "leave"
  /\ IF Leak THEN UNCHANGED <<cur, recv>> ELSE cur' = "" /\ recv' = ""
  /\ IF ci < Len(prog.files[fi]) THEN ci' = ci + 1 /\ ph' = "enter" ELSE ci' = ci /\ ph' = "endfile"
  /\ UNCHANGED <<prog, fi, diags, rname>>

EndFile ==
  /\ ph = "endfile"
  /\ IF fi < Len(prog.files) THEN fi' = fi + 1 /\ ci' = 0 /\ ph' = "begin" ELSE fi' = fi /\ ci' = ci /\ ph' = "done"
  /\ UNCHANGED <<prog, cur, recv, diags, rname>>

Finished == ph = "done" /\ UNCHANGED vars

Next == BeginFile \/ EnterDecl \/ Visit \/ LeaveDecl \/ EndFile \/ Finished

Spec == Init /\ [][Next]_vars /\ WF_vars(BeginFile \/ EnterDecl \/ Visit \/ LeaveDecl \/ EndFile)

Done == ph = "done"
Termination == <>Done

(***************************************************************************)
(* Checked properties                                                      *)
(***************************************************************************)
\* C01: the walk reports exactly what the property demands
Exact == Done => diags = L1(prog)
\* C09: nothing is reported when the type carries no @immutable
NoAnnNoDiag == (Done /\ ~prog.ann.imm) => diags = {}
\* C10: the walk never crashes
NoCrash == <<0, 0, "CRASH">> \notin diags
\* the context never outlives its declaration
ContextScoped == [][(ph = "leave" /\ ~Leak) => (cur' = "" /\ recv' = "")]_vars
\* diagnostics only accumulate, the program is never modified
Stable == [][prog' = prog /\ diags \subseteq diags']_vars

EmitInv == (Emit /\ Done) =>
   PrintT("@E " \o ToJson([ann |-> prog.ann, pkg |-> prog.pkg, files |-> prog.files,
                            expect |-> L1(prog)]))
=============================================================================
