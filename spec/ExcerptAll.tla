----------------------------- MODULE ExcerptAll -----------------------------
(***************************************************************************)
(* The truncation / caret arithmetic of Excerpt.tla as pure integer        *)
(* functions of (display limit l, line length n, column c), checked by     *)
(* Apalache for *all* integers l >= 7, n >= 0, 1 <= c <= n + 1 (TLC checks *)
(* Excerpt.tla for l = 8..12 and the replay runs at l = 200): linear       *)
(* integer arithmetic with one division by 2, decided by the SMT solver.   *)
(* Same definitions as Excerpt.tla (Pos0, FirstRegime, LastRegime, Before, *)
(* After, Truncate, PlaceCaret, UnderCaret, CaretOK, LenOK).               *)
(***************************************************************************)
EXTENDS Integers

VARIABLES
  \* @type: Int;
  l,
  \* @type: Int;
  n,
  \* @type: Int;
  c

Max(a, b) == IF a > b THEN a ELSE b
Min(a, b) == IF a < b THEN a ELSE b
B(b) == IF b THEN 1 ELSE 0

Pos0 == LET p == c - 1 IN IF p < 0 THEN 0 ELSE IF p >= n THEN n - 1 ELSE p
FirstRegime == Pos0 < l - 3
LastRegime  == Pos0 >= n - l + 3
Before == (l - 3) \div 2
After  == (l - 3) - Before

Pre == n > l /\ ~FirstRegime
Post == n > l /\ (FirstRegime \/ ~LastRegime)
Start == IF n <= l \/ FirstRegime THEN 0 ELSE IF LastRegime THEN n - l + 3 ELSE Max(0, Pos0 - Before)
End == IF n <= l THEN n ELSE IF FirstRegime THEN l - 3 ELSE IF LastRegime THEN n ELSE Min(n, Pos0 + After)
Caret == IF n <= l \/ FirstRegime THEN c ELSE IF LastRegime THEN 4 + (Pos0 - (n - l + 3)) ELSE 4 + Before

UnderCaret == LET d == Caret - 1 - 3 * B(Pre)
              IN IF d < 0 THEN -1
                 ELSE IF Start + d >= End /\ Post THEN -1
                 ELSE Start + d

CaretOK == n > 0 => IF c <= n THEN UnderCaret = c - 1 ELSE UnderCaret \in {n - 1, n}
LenOK == /\ 0 <= Start /\ Start <= End /\ End <= n
         /\ (End - Start) + 3 * B(Pre) + 3 * B(Post) <= l + 3
         /\ (n <= l => ~Pre /\ ~Post /\ Start = 0 /\ End = n)
         /\ (~Pre => Start = 0) /\ (~Post => End = n)
\* the reported byte is inside the shown window (it is displayed, not hidden behind an ellipsis)
Shown == (n > 0 /\ c <= n) => Start <= c - 1 /\ c - 1 < End

Init == /\ l \in Int /\ n \in Int /\ c \in Int
        /\ l >= 7 /\ n >= 0 /\ c >= 1 /\ c <= n + 1
Next == UNCHANGED <<l, n, c>>
Inv == CaretOK /\ LenOK /\ Shown
=============================================================================
