------------------------------ MODULE TestOnly ------------------------------
(***************************************************************************)
(* The @testonly checker (src/testonly/checker.go).                        *)
(*                                                                         *)
(* Package d declares types TT, TT2 and S, function TF and method S.TM,    *)
(* each annotated @testonly according to ann, and the never-annotated      *)
(* twins PF / S.PM.  Package o declares another @testonly type that is     *)
(* also called TT.  The package under analysis is d or u (imports d, o).   *)
(* A file is [test, conts]; a container is one top-level declaration with  *)
(* one tagged use:                                                         *)
(*   ctx  plain   ordinary function            tofunc  @testonly function  *)
(*        pmeth   ordinary method              tometh  @testonly method    *)
(*        decl    the use is itself a declaration (struct field)           *)
(*   use  callF d.TF()  -> TONL02        callM s.TM() -> TONL03            *)
(*        callMvar gs.TM() on a package-level variable declared in another *)
(*        file, so that the calling file does not import d -> TONL03       *)
(*        callPF / callPM (un-annotated twins), shadow (a local variable   *)
(*        named TF is called; d only)    -> nothing                        *)
(*        litTT, varTT, varPtrTT, fieldTT, paramTT, resultTT (type d.TT),  *)
(*        litTT2 (type d.TT2), litOTT (type o.TT) -> TONL01, once per file *)
(*        and type, at the first use in source order                       *)
(*                                                                         *)
(* L2: the walk with reported (per file, keyed by package and type) and    *)
(* the skip of @testonly declarations and of _test.go files.               *)
(* L1: Exact.  Deviations: DedupByName (reported keyed by the bare type    *)
(* name), MatchByName (calls matched by identifier text), NoUnalias (a use *)
(* spelled through a type alias is invisible), StopAtReportedCall (the     *)
(* arguments of a reported call are not visited), SkipMethodNamedLikeFunc  *)
(* (a method named like a @testonly function is taken for @testonly),     *)
(* ElidedSkipped (element literals without a written type are not seen),   *)
(* OnePerPosition (one report per expression start),                       *)
(* ExportedOnly (methods of unexported types do not cross packages),       *)
(* GroupDocLeaks (the doc of a spec reaches the next spec of its group).   *)
(***************************************************************************)
EXTENDS Integers, Sequences, FiniteSets, TLC, Json

CONSTANTS Mode, Deviations, Emit

VARIABLES prog, fi, ci, ph, skip, reported, diags

vars == <<prog, fi, ci, ph, skip, reported, diags>>

Ctxs == {"plain", "tofunc", "pmeth", "tometh", "decl", "pmethTF"}   \* pmethTF: an ordinary method that is merely named TF, like the @testonly function
\* callFlit: d.TF(d.TT{..}.X) - a @testonly literal inside a @testonly call
\* callHM:   d.Default.HTM() - HTM is a @testonly method (iff ann.meth) of the unexported type hid
\* litTG:    a literal of d.TG, the undocumented spec that follows the annotated TT inside one `type ( ... )` group
\* chainFM:  d.MkS().TM() - a @testonly function and a @testonly method in one expression (same start position)
\* chainLM:  d.TT{}.TTM() - a literal of the type TT and its @testonly method TTM in one expression; TTM exists only when ann.meth
\*           (an un-annotated method on TT in a non-test file would itself be a use of TT)
\* elidedTT: []d.TT{{X: n}} - the element literal has no type of its own in the source
\* callLower:   tfLower(n) - an unexported @testonly function (iff ann.func) declared before TF, used inside its own package
\* callMpkgvar: `d := d.S{}; d.TM(n)` - the receiver is a local variable that is called like the import
\* callMparen:  s.TMP(n) - TMP is a @testonly method (iff ann.meth) whose receiver is written with parentheses, func (s (S)) TMP
Uses == {"callF", "callM", "callMparen", "callMvar", "callHM", "litTG", "chainFM", "chainLM", "callPF", "callPM", "shadow", "callFlit", "callLower", "callMpkgvar",
         "elidedTT", "litTT", "varTT", "varPtrTT", "fieldTT", "paramTT", "resultTT", "litTT2", "litOTT"}
TypeUses == {"elidedTT", "litTT", "varTT", "varPtrTT", "fieldTT", "paramTT", "resultTT", "litTT2", "litOTT"}
IsTypeUse(u) == u \in TypeUses \/ u \in {"callFlit", "chainLM"}

Anns == [type : BOOLEAN, func : BOOLEAN, meth : BOOLEAN]

Cont(x, u) == [ctx |-> x, use |-> u, sp |-> "direct"]
ContS(x, u, sp) == [ctx |-> x, use |-> u, sp |-> sp]
Spells == {"direct", "alias", "alias3", "chain", "ptralias", "ptrchain", "ptrofalias", "rename", "paren"}

Valid(c, pkg) ==
  /\ (c.use = "fieldTT" <=> c.ctx = "decl")
  /\ (c.use \in {"paramTT", "resultTT"} => c.ctx \in {"plain", "tofunc"})
  /\ (c.use = "shadow" => pkg = "d")
  /\ (c.ctx = "pmethTF" => pkg = "d" /\ c.use \notin {"fieldTT", "paramTT", "resultTT", "shadow"})
  /\ (c.use = "litOTT" => pkg = "u")
  /\ (c.use = "callLower" => pkg = "d")
  /\ (c.use = "callMpkgvar" => pkg = "u" /\ c.ctx \in {"plain", "tofunc"})

\* the defined type a use refers to, as <<package, name>>
TypeOf(u) == CASE u = "litTT2" -> <<"d", "TT2">> [] u = "litOTT" -> <<"o", "TT">> [] u = "litTG" -> <<"d", "TG">> [] OTHER -> <<"d", "TT">>

InTestCtx(f, c) == f.test \/ c.ctx \in {"tofunc", "tometh"}

\* candidate code of a use, before the once-per-file rule
Cands(c, ann) ==
  (IF c.use \in {"callF", "callFlit", "chainFM", "callLower"} /\ ann.func THEN {"TONL02"} ELSE {})
  \cup (IF c.use \in {"callM", "callMparen", "callMvar", "callHM", "chainFM", "chainLM", "callMpkgvar"} /\ ann.meth THEN {"TONL03"} ELSE {})
  \cup (IF (c.use \in TypeUses \/ c.use \in {"callFlit", "chainLM"}) /\ (ann.type \/ c.use = "litOTT") THEN {"TONL01"} ELSE {})   \* o.TT is always annotated

(***************************************************************************)
(* L1                                                                      *)
(***************************************************************************)
Keys(p) == UNION {{<<f, i>> : i \in 1..Len(p.files[f].conts)} : f \in 1..Len(p.files)}
Reported(p, f, i, code) ==
  LET fl == p.files[f]
      c == fl.conts[i]
  IN /\ code \in Cands(c, p.ann)
     /\ ~InTestCtx(fl, c)
     /\ (code = "TONL01" =>
           \A j \in 1..(i - 1) :
              LET b == fl.conts[j] IN ~("TONL01" \in Cands(b, p.ann) /\ TypeOf(b.use) = TypeOf(c.use) /\ ~InTestCtx(fl, b)))
L1(p) == {<<k[1], k[2], code>> : k \in Keys(p), code \in {"TONL01", "TONL02", "TONL03"}} \cap
         {x \in (1..2) \X (1..3) \X {"TONL01", "TONL02", "TONL03"} : <<x[1], x[2]>> \in Keys(p) /\ Reported(p, x[1], x[2], x[3])}

(***************************************************************************)
(* Program spaces                                                          *)
(***************************************************************************)
SeqUses == {"elidedTT", "litTT", "varTT", "litTT2", "litOTT", "paramTT", "callF", "callMvar", "callFlit", "litTG", "chainLM", "callMpkgvar"}
SeqConts(pkg) == {c \in {Cont(x, u) : x \in {"plain", "tofunc"}, u \in SeqUses} : Valid(c, pkg)}

InitProg ==
  \/ /\ Mode = "single"
     /\ \E ann \in Anns, pkg \in {"d", "u"}, t \in BOOLEAN, x \in Ctxs, u \in Uses :
          /\ Valid(Cont(x, u), pkg) /\ (u = "chainLM" => ann.meth)
          /\ prog = [ann |-> ann, pkg |-> pkg, files |-> <<[test |-> t, conts |-> <<Cont(x, u)>>]>>]
  \/ /\ Mode = "spell"     \* C13: every type use under every spelling of the type
     /\ \E ann \in {a \in Anns : a.type}, pkg \in {"d", "u"}, x \in Ctxs, u \in TypeUses \ {"litTT2", "litOTT", "elidedTT"}, sp \in Spells :
          /\ Valid(Cont(x, u), pkg)
          /\ (sp \in {"alias3", "rename"} => pkg = "u")
          /\ (sp \in {"ptralias", "ptrchain", "ptrofalias"} => u \in {"varPtrTT", "resultTT"})
          /\ (sp = "paren" => u \notin {"litTT"})
          /\ prog = [ann |-> ann, pkg |-> pkg, files |-> <<[test |-> FALSE, conts |-> <<ContS(x, u, sp)>>]>>]
  \/ /\ Mode = "spell"     \* ... and after a directly spelled use in the same file: still one TONL01 per file and type
     /\ \E ann \in {a \in Anns : a.type}, pkg \in {"d", "u"}, u \in {"varTT", "paramTT", "litTT"}, sp \in {"alias", "alias3", "chain"}, first \in BOOLEAN :
          /\ (sp = "alias3" => pkg = "u")
          /\ prog = [ann |-> ann, pkg |-> pkg, files |-> <<[test |-> FALSE, conts |-> IF first THEN <<ContS("plain", u, sp), Cont("plain", "varTT")>>
                                                                                     ELSE <<Cont("plain", "varTT"), ContS("plain", u, sp)>>]>>]
  \/ /\ Mode = "seq2"
     /\ \E pkg \in {"d", "u"}, ann \in {a \in Anns : a.type} : \E c1 \in SeqConts(pkg), c2 \in SeqConts(pkg) :
          /\ ("chainLM" \in {c1.use, c2.use} => ann.meth)
          /\ \/ prog = [ann |-> ann, pkg |-> pkg, files |-> <<[test |-> FALSE, conts |-> <<c1, c2>>]>>]
             \/ prog = [ann |-> ann, pkg |-> pkg, files |-> <<[test |-> FALSE, conts |-> <<c1>>], [test |-> FALSE, conts |-> <<c2>>]>>]
             \/ prog = [ann |-> ann, pkg |-> pkg, files |-> <<[test |-> TRUE, conts |-> <<c1>>], [test |-> FALSE, conts |-> <<c2>>]>>]
  \/ /\ Mode = "seq3"
     /\ \E pkg \in {"d", "u"} : \E c1 \in SeqConts(pkg), c2 \in SeqConts(pkg), c3 \in SeqConts(pkg) :
          \/ prog = [ann |-> [type |-> TRUE, func |-> TRUE, meth |-> TRUE], pkg |-> pkg,
                     files |-> <<[test |-> FALSE, conts |-> <<c1, c2, c3>>]>>]
          \/ prog = [ann |-> [type |-> TRUE, func |-> TRUE, meth |-> TRUE], pkg |-> pkg,
                     files |-> <<[test |-> FALSE, conts |-> <<c1, c2>>], [test |-> FALSE, conts |-> <<c3>>]>>]

Init == /\ InitProg
        /\ fi = 1 /\ ci = 0 /\ ph = "begin"
        /\ skip = FALSE /\ reported = {}
        /\ diags = {}

CurF == prog.files[fi]
CurC == CurF.conts[ci]

\* a _test.go file is not walked at all; every other file starts with an empty reported set
BeginFile ==
  /\ ph = "begin"
  /\ reported' = {} /\ skip' = FALSE
  /\ IF CurF.test THEN ci' = ci /\ ph' = "endfile" ELSE ci' = 1 /\ ph' = "enter"
  /\ UNCHANGED <<prog, fi, diags>>

\* a @testonly function or method is not entered (body and signature)
EnterDecl ==
  /\ ph = "enter" /\ ci <= Len(CurF.conts)
  /\ skip' = (CurC.ctx \in {"tofunc", "tometh"})
  /\ ph' = "visit"
  /\ UNCHANGED <<prog, fi, ci, reported, diags>>

Key(u) == IF "DedupByName" \in Deviations THEN TypeOf(u)[2] ELSE TypeOf(u)
\* DedupBySpelling: the once-per-file set is keyed by the name the use is written with (an alias is another key)
KeyC(c) == IF "DedupBySpelling" \in Deviations THEN <<Key(c.use), c.sp>> ELSE Key(c.use)

\* what one visit adds: TONL02 / TONL03 for every call; TONL01 once per file and type
VisitCodes(c) ==
  LET cs == IF c.use = "shadow" /\ "MatchByName" \in Deviations /\ prog.ann.func THEN {"TONL02"}
            ELSE IF "NoUnalias" \in Deviations /\ c.sp \in {"alias", "alias3", "chain", "ptralias", "ptrchain", "ptrofalias"} THEN {}
            ELSE IF "ExportedOnly" \in Deviations /\ c.use = "callHM" /\ prog.pkg # "d" THEN {}
            ELSE IF "LocalUnexportedLost" \in Deviations /\ c.use = "callLower" THEN {}
            ELSE IF "QualifierByText" \in Deviations /\ c.use = "callMpkgvar" THEN {}
            ELSE IF "RecvNameBySyntax" \in Deviations /\ c.use = "callMparen" THEN {}     \* the receiver type is read off the syntax: T and *T only (pinned code, D18)
            ELSE IF "GroupDocLeaks" \in Deviations /\ c.use = "litTG" /\ prog.ann.type THEN {"TONL01"}
            ELSE IF "ElidedSkipped" \in Deviations /\ c.use = "elidedTT" THEN {}
            ELSE Cands(c, prog.ann)
      \* OnePerPosition: of several reports anchored at the same expression start only the first survives
      \* (the outermost call is visited first: TONL03 wins over TONL02 / TONL01)
      one == IF "OnePerPosition" \in Deviations /\ c.use \in {"chainFM", "chainLM"} /\ "TONL03" \in cs THEN {"TONL03"} ELSE cs
  IN IF "StopAtReportedCall" \in Deviations /\ "TONL02" \in cs /\ c.use \notin {"chainFM", "chainLM"} THEN {"TONL02"} ELSE one     \* the arguments of a reported call are not visited

Visit ==
  /\ ph = "visit"
  /\ LET c == CurC
         cs == IF skip \/ ("SkipMethodNamedLikeFunc" \in Deviations /\ c.ctx = "pmethTF" /\ prog.ann.func) THEN {} ELSE VisitCodes(c)
         newType == "TONL01" \in cs /\ KeyC(c) \notin reported
     IN /\ diags' = diags \cup {<<fi, ci, code>> : code \in (cs \ {"TONL01"})} \cup (IF newType THEN {<<fi, ci, "TONL01">>} ELSE {})
        /\ reported' = IF newType THEN reported \cup {KeyC(c)} ELSE reported
  /\ ph' = "leave"
  /\ UNCHANGED <<prog, fi, ci, skip>>

LeaveDecl ==
  /\ ph = "leave"
  /\ skip' = FALSE
  /\ IF ci < Len(CurF.conts) THEN ci' = ci + 1 /\ ph' = "enter" ELSE ci' = ci /\ ph' = "endfile"
  /\ UNCHANGED <<prog, fi, reported, diags>>

EndFile ==
  /\ ph = "endfile"
  /\ IF fi < Len(prog.files) THEN fi' = fi + 1 /\ ci' = 0 /\ ph' = "begin" ELSE fi' = fi /\ ci' = ci /\ ph' = "done"
  /\ UNCHANGED <<prog, skip, reported, diags>>

Finished == ph = "done" /\ UNCHANGED vars

Next == BeginFile \/ EnterDecl \/ Visit \/ LeaveDecl \/ EndFile \/ Finished

Spec == Init /\ [][Next]_vars /\ WF_vars(BeginFile \/ EnterDecl \/ Visit \/ LeaveDecl \/ EndFile)

Done == ph = "done"
Termination == <>Done

Exact == Done => diags = L1(prog)
NoAnnNoDiag == (Done /\ ~prog.ann.type /\ ~prog.ann.func /\ ~prog.ann.meth /\ prog.pkg = "d") => diags = {}
NoTestFileDiag == \A k \in diags : ~prog.files[k[1]].test
Stable == [][prog' = prog /\ diags \subseteq diags']_vars
ReportedPerFile == [][ph = "begin" => reported' = {}]_vars

EmitInv == (Emit /\ Done) =>
   PrintT("@E " \o ToJson([ann |-> prog.ann, pkg |-> prog.pkg, files |-> prog.files, expect |-> L1(prog)]))
=============================================================================
