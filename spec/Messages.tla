------------------------------ MODULE Messages ------------------------------
(***************************************************************************)
(* What the first line of a diagnostic says (beyond the listed properties: *)
(* C17 fixes the `[CODE]` token and the help link, C11 the stability of    *)
(* the text).  For the all-codes program of lib/gen_all.py (package p uses *)
(* the annotated items of m/d; three types claim interfaces) the header of *)
(* each code must name the entities involved, in this order.               *)
(* One state; the table is printed for the conformance run of bin/extra.   *)
(***************************************************************************)
EXTENDS Codes, TLC, Json, Sequences

VARIABLE x

Mentions(c) ==
  CASE c = "IMM01" -> <<"type \"T\"", "assign", "field \"X\"">>
    [] c = "IMM02" -> <<"type \"T\"", "+=", "field \"X\"">>
    [] c = "IMM03" -> <<"type \"T\"", "++", "field \"X\"">>
    [] c = "IMM04" -> <<"type \"T\"", "element", "field \"Xs\"">>
    [] c = "CTOR01" -> <<"instantiation", "constructor", "[NewT]">>
    [] c = "CTOR02" -> <<"new()", "constructor", "[NewT]">>
    [] c = "CTOR03" -> <<"variable declaration", "constructor", "[NewT]">>
    [] c = "TONL01" -> <<"type TT", "@testonly", "test files">>
    [] c = "TONL02" -> <<"function TF", "@testonly", "test files">>
    [] c = "TONL03" -> <<"method TM on S", "@testonly", "test files">>
    [] c = "PKGO01" -> <<"PT type", "@packageonly", "from m/p", "[m/d]">>
    [] c = "PKGO02" -> <<"PF function", "@packageonly", "from m/p", "[m/d]">>
    [] c = "PKGO03" -> <<"S.PM method", "@packageonly", "from m/p", "[m/d]">>
    [] c = "IMPL01" -> <<"package \"nope\"", "@implements", "type \"A1use\"", "not imported">>
    [] c = "IMPL02" -> <<"interface \"d.Missing\"", "not found", "type \"A2use\"">>
    [] c = "IMPL03" -> <<"type \"A3use\"", "does not implement", "interface \"d.I\"">>

\* every code of the table has an entry, and every header starts with the code in brackets (C17)
ASSUME \A c \in AllCodes : Len(Mentions(c)) >= 3

Init == x = 0 /\ PrintT("@E " \o ToJson([c \in AllCodes |-> Mentions(c)]))
Next == UNCHANGED x
Spec == Init /\ [][Next]_x
=============================================================================
