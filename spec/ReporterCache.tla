--------------------------- MODULE ReporterCache ---------------------------
(***************************************************************************)
(* The state a reporting.Reporter keeps between diagnostics (src/reporting *)
(* /reporter.go: lineCache, getFileLines, readSourceLines): the lines of   *)
(* every file it has rendered an excerpt from.  One Reporter serves all    *)
(* diagnostics of one analyzer pass, so a message is rendered after an     *)
(* arbitrary history of earlier messages.                                  *)
(*                                                                         *)
(* Files: "a" (readable, 0..MaxLen lines) and "b" (unreadable, or readable *)
(* with 2 lines).  Report(f, l): a diagnostic on line l of f (l may exceed *)
(* the file's length: the file on disk is shorter than what was parsed).   *)
(*                                                                         *)
(* L1 (Stateless): the window of every message is Window(l, length of f),  *)
(* whatever was reported before: lines max(l-2,1) .. min(l+1,n), nothing   *)
(* when the file cannot be read, is empty, or ends more than two lines     *)
(* before l.  ReadOnce: a readable file is read at most once per reporter. *)
(* Line 2 of file "a" is longer than the display limit: a diagnostic on it *)
(* carries a column class (head / mid / tail) that selects the truncation  *)
(* window; TruncByOwnColumn: the window shown is the one of the message's  *)
(* own column, whatever was rendered before (deviation TruncCache: the     *)
(* truncated form is cached per (file, line)).                             *)
(* L2: the cache.  Deviation PrefixCache: only the lines up to the end of  *)
(* the requested window are cached, and the hit test is off by one.        *)
(***************************************************************************)
EXTENDS Integers, Sequences, FiniteSets, TLC, Json

CONSTANTS MaxLen, MaxReports, Deviations, Emit

VARIABLES len, rd, cache, reads, hist, tcache

vars == <<len, rd, cache, reads, hist, tcache>>

Cols(f, l) == IF f = "a" /\ l = 2 THEN {"head", "mid", "tail"} ELSE {"head"}

F == {"a", "b"}
Lines == 1..(MaxLen + 2)

Max(x, y) == IF x > y THEN x ELSE y
Min(x, y) == IF x < y THEN x ELSE y

Init == /\ \E n \in 0..MaxLen, bReadable \in BOOLEAN :
             /\ len = [f \in F |-> IF f = "a" THEN n ELSE IF bReadable THEN 2 ELSE 0]
             /\ rd = [f \in F |-> f = "a" \/ bReadable]
        /\ cache = [f \in F |-> -1]          \* -1: no entry
        /\ reads = [f \in F |-> 0]
        /\ hist = <<>>
        /\ tcache = "none"     \* the column class of the first rendering of the long line

\* the window computed from n available lines
Win(l, n) == IF n = 0 \/ l - 2 > n THEN <<0, 0>> ELSE <<Max(l - 2, 1), Min(l + 1, n)>>
Window(f, l) == IF ~rd[f] THEN <<0, 0>> ELSE Win(l, len[f])

Report(f, l, c) ==
  LET prefix == "PrefixCache" \in Deviations
      hit == IF prefix THEN cache[f] # -1 /\ l <= cache[f]      \* should be l + 1 <= cache[f]
             ELSE cache[f] # -1
      avail == IF hit THEN cache[f] ELSE IF rd[f] THEN len[f] ELSE 0
      w == IF ~hit /\ ~rd[f] THEN <<0, 0>> ELSE Win(l, avail)
      long == f = "a" /\ w[1] # 0 /\ w[1] <= 2 /\ 2 <= w[2]      \* the long line is among the lines shown (as the diagnostic's line or as context)
      tr == IF "TruncCache" \in Deviations /\ long /\ tcache # "none" THEN tcache ELSE c
  IN /\ reads' = IF hit THEN reads ELSE [reads EXCEPT ![f] = @ + 1]
     /\ cache' = IF hit \/ ~rd[f] THEN cache
                 ELSE [cache EXCEPT ![f] = IF prefix THEN Min(l + 1, len[f]) ELSE len[f]]
     /\ hist' = Append(hist, [f |-> f, l |-> l, c |-> c, lo |-> w[1], hi |-> w[2], trunc |-> tr])
     /\ tcache' = IF long /\ tcache = "none" THEN c ELSE tcache
     /\ UNCHANGED <<len, rd>>

Next == Len(hist) < MaxReports /\ \E f \in F, l \in Lines : \E c \in Cols(f, l) : Report(f, l, c)
Spec == Init /\ [][Next]_vars

Stateless == \A i \in 1..Len(hist) : <<hist[i].lo, hist[i].hi>> = Window(hist[i].f, hist[i].l)
TruncByOwnColumn == \A i \in 1..Len(hist) : hist[i].trunc = hist[i].c
ReadOnce == \A f \in F : rd[f] => reads[f] <= 1
\* an unreadable file is asked for again by every diagnostic (nothing is cached for it)
Retry == \A f \in F : ~rd[f] => reads[f] = Cardinality({i \in 1..Len(hist) : hist[i].f = f})
CacheFaithful == \A f \in F : cache[f] # -1 => cache[f] = len[f]

EmitInv == Emit => PrintT("@E " \o ToJson([n |-> len["a"], bReadable |-> rd["b"], hist |-> hist, readsA |-> reads["a"], readsB |-> reads["b"]]))
=============================================================================
