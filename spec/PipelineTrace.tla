--------------------------- MODULE PipelineTrace ---------------------------
(***************************************************************************)
(* Trace validation of real runs against the pipeline discipline of        *)
(* Pipeline.tla.  The events are recorded by harness/internal/trace, which *)
(* wraps the Run function of the eight real analyzers (no source change):  *)
(*   Reset                       a new run begins                          *)
(*   Start  a p pid imports      an action begins (imports = direct        *)
(*                               imports of p inside the traced module)    *)
(*   Export a p pid digest       pass.ExportPackageFact                    *)
(*   Import a p q pid found dig  pass.ImportPackageFact                    *)
(*   End    a p pid res ndiags   the action returns (res = digest of the   *)
(*                               result for config / annotationreader)     *)
(*   Finish                      the driver has returned                   *)
(* Under go vet every package is analysed by its own process (pid), facts  *)
(* travel through gob-encoded files; the events of all processes are       *)
(* appended to one file.                                                   *)
(*                                                                         *)
(* Accepted iff every line can be consumed:                                *)
(*  - Start only when everything the action requires has ended in the same *)
(*    process and, for fact-exporting analyzers, the same analyzer has     *)
(*    exported a fact for every direct import (in whatever process);       *)
(*  - Import only from a direct import, found iff a fact was exported, and *)
(*    the imported value has the digest that was exported (a field that    *)
(*    does not survive serialisation changes it);                          *)
(*  - End only without error, after the action's own export              *)
(*    (ExportBeforeReturn), and all config results of a run being equal;   *)
(*    (what a fact contains is not prescribed - only that it arrives as    *)
(*    it was exported; its sufficiency is judged by the diagnostics)       *)
(*  - Finish only when no action is still running (a crash leaves one).    *)
(***************************************************************************)
EXTENDS Integers, Sequences, FiniteSets, TLC, Json

CONSTANT TraceFile

Trace == ndJsonDeserialize(TraceFile)

VARIABLES l, running, endedIn, exported, annDig, cfgs, imps

tvars == <<l, running, endedIn, exported, annDig, cfgs, imps>>

Checkers == {"implementschecker", "immutabilitychecker", "constructorchecker", "testonlychecker", "packageonlychecker"}
FactAnalyzers == {"annotationreader"} \cup Checkers
Requires(a) == CASE a = "config" -> {}
                 [] a \in {"annotationreader", "ignorereader"} -> {"config"}
                 [] OTHER -> {"config", "annotationreader", "ignorereader"}

Has(e, f) == f \in DOMAIN e
ImportsOf(e) == IF Has(e, "imports") THEN {e.imports[i] : i \in 1..Len(e.imports)} ELSE {}

Empty == /\ running = {} /\ endedIn = {} /\ exported = {} /\ annDig = {} /\ cfgs = {} /\ imps = {}
TraceInit == l = 1 /\ Empty /\ TLCSet(1, 1)

IsEvent(e) == l <= Len(Trace) /\ Trace[l].ev = e /\ l' = l + 1
\* high-water mark of the consumed prefix; evaluated last, i.e. only when every guard of the action holds
Mark == TLCSet(1, l + 1)
E == Trace[l]

TraceReset == /\ IsEvent("Reset")
              /\ running' = {} /\ endedIn' = {} /\ exported' = {} /\ annDig' = {} /\ cfgs' = {} /\ imps' = {}
              /\ Mark

TraceStart ==
  /\ IsEvent("Start")
  /\ <<E.pid, E.a, E.p>> \notin running
  /\ \A b \in Requires(E.a) : <<E.pid, b, E.p>> \in endedIn
  /\ E.a \in FactAnalyzers => \A q \in ImportsOf(E) : \E x \in exported : x[1] = E.a /\ x[2] = q
  /\ running' = running \cup {<<E.pid, E.a, E.p>>}
  /\ imps' = imps \cup {<<E.p, q>> : q \in ImportsOf(E)}
  /\ UNCHANGED <<endedIn, exported, annDig, cfgs>>
  /\ Mark

TraceExport ==
  /\ IsEvent("Export")
  /\ <<E.pid, E.a, E.p>> \in running
  /\ E.a \in FactAnalyzers
  /\ \A x \in exported : (x[1] = E.a /\ x[2] = E.p) => x[3] = E.digest      \* re-analysis (test variants) exports the same value
  /\ exported' = exported \cup {<<E.a, E.p, E.digest>>}
  /\ UNCHANGED <<running, endedIn, annDig, cfgs, imps>>
  /\ Mark

TraceImport ==
  /\ IsEvent("Import")
  /\ <<E.pid, E.a, E.p>> \in running
  /\ <<E.p, E.q>> \in imps                                               \* direct imports only
  /\ E.found = (\E x \in exported : x[1] = E.a /\ x[2] = E.q)
  /\ E.found => <<E.a, E.q, E.digest>> \in exported                      \* the value arrives intact
  /\ UNCHANGED <<running, endedIn, exported, annDig, cfgs, imps>>
  /\ Mark

TraceEnd ==
  /\ IsEvent("End")
  /\ <<E.pid, E.a, E.p>> \in running
  /\ ~Has(E, "err")
  /\ E.a \in FactAnalyzers => \E x \in exported : x[1] = E.a /\ x[2] = E.p
  /\ annDig' = IF E.a = "annotationreader" THEN annDig \cup {<<E.p, E.res>>} ELSE annDig
  /\ cfgs' = IF E.a = "config" THEN cfgs \cup {E.res} ELSE cfgs
  /\ E.a = "config" => Cardinality(cfgs \cup {E.res}) = 1
  /\ running' = running \ {<<E.pid, E.a, E.p>>}
  /\ endedIn' = endedIn \cup {<<E.pid, E.a, E.p>>}
  /\ UNCHANGED <<exported, imps>>
  /\ Mark

TraceFinish ==
  /\ IsEvent("Finish")
  /\ running = {}
  /\ UNCHANGED <<running, endedIn, exported, annDig, cfgs, imps>>
  /\ Mark

TraceNext == TraceReset \/ TraceStart \/ TraceExport \/ TraceImport \/ TraceEnd \/ TraceFinish

TraceSpec == TraceInit /\ [][TraceNext]_tvars

\* safety invariants evaluated after every consumed event
OneConfig == Cardinality(cfgs) <= 1
OneDigestPerFact == \A x \in exported, y \in exported : (x[1] = y[1] /\ x[2] = y[2]) => x[3] = y[3]

TraceAccepted ==
  IF TLCGet(1) = Len(Trace) + 1 THEN TRUE
  ELSE /\ PrintT("@REJECT line " \o ToString(TLCGet(1)) \o " " \o ToString(Trace[TLCGet(1)]))
       /\ FALSE
=============================================================================
