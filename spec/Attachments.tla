----------------------------- MODULE Attachments -----------------------------
(***************************************************************************)
(* util.AttachmentsMap (src/util/attachmentsmap.go): the index the         *)
(* @packageonly checker builds from annotations - strings attached to      *)
(* packages, functions, types, fields and methods, stored as nested maps   *)
(* of struct *values* (every Add reads a struct out of a map, extends it   *)
(* and writes it back).                                                    *)
(*                                                                         *)
(* L2: the nested representation `tree`, one action per Add* method.       *)
(* L1: the flat history `flat` of added tuples <<level, pkg, name, sub,    *)
(* att>> in insertion order.  Every query of the API must answer from      *)
(* `tree` what `flat` says:                                                *)
(*   Has*(.., att)        iff the tuple was added                          *)
(*   HasAny*(..)          iff some tuple of that exact level and key was   *)
(*                        added (a method attachment does not make the     *)
(*                        type itself attached)                            *)
(*   GetAttachmentsFor*() =  the attachments of that key in insertion      *)
(*                        order, duplicates kept                           *)
(***************************************************************************)
EXTENDS Integers, Sequences, FiniteSets, TLC

CONSTANTS MaxOps, Emit

VARIABLES tree, flat

vars == <<tree, flat>>

Pk == {"p", "q"}
Nm == {"A", "B"}
Sb == {"x", "y"}
At == {1, 2}
Levels == {"pkg", "func", "type", "field", "method"}

Ops == {<<"pkg", p, "", "", a>> : p \in Pk, a \in At}
       \cup {<<"func", p, n, "", a>> : p \in Pk, n \in Nm, a \in At}
       \cup {<<"type", p, n, "", a>> : p \in Pk, n \in Nm, a \in At}
       \cup {<<"field", p, n, s, a>> : p \in Pk, n \in Nm, s \in Sb, a \in At}
       \cup {<<"method", p, n, s, a>> : p \in Pk, n \in Nm, s \in Sb, a \in At}

EmptyType == [local |-> <<>>, fields |-> <<>>, methods |-> <<>>]      \* functions with empty domain written as <<>>
EmptyPkg == [local |-> <<>>, funcs |-> <<>>, types |-> <<>>]

Init == tree = <<>> /\ flat = <<>>

Get(f, k, dflt) == IF k \in DOMAIN f THEN f[k] ELSE dflt
Put(f, k, v) == [x \in DOMAIN f \cup {k} |-> IF x = k THEN v ELSE f[x]]

Apply(op) ==
  LET lv == op[1]
      p == op[2]
      n == op[3]
      s == op[4]
      a == op[5]
      pk == Get(tree, p, EmptyPkg)
      ty == Get(pk.types, n, EmptyType)
  IN tree' = Put(tree, p,
       CASE lv = "pkg" -> [pk EXCEPT !.local = Append(@, a)]
         [] lv = "func" -> [pk EXCEPT !.funcs = Put(@, n, Append(Get(@, n, <<>>), a))]
         [] lv = "type" -> [pk EXCEPT !.types = Put(@, n, [ty EXCEPT !.local = Append(@, a)])]
         [] lv = "field" -> [pk EXCEPT !.types = Put(@, n, [ty EXCEPT !.fields = Put(@, s, Append(Get(@, s, <<>>), a))])]
         [] lv = "method" -> [pk EXCEPT !.types = Put(@, n, [ty EXCEPT !.methods = Put(@, s, Append(Get(@, s, <<>>), a))])])

Next == /\ Len(flat) < MaxOps
        /\ \E op \in Ops : Apply(op) /\ flat' = Append(flat, op)
Spec == Init /\ [][Next]_vars

InSeq(x, q) == \E i \in 1..Len(q) : q[i] = x

\* answers from the nested representation, as the API computes them
ListOf(lv, p, n, s) ==
  LET pk == Get(tree, p, EmptyPkg)
      ty == Get(pk.types, n, EmptyType)
  IN CASE lv = "pkg" -> pk.local
       [] lv = "func" -> Get(pk.funcs, n, <<>>)
       [] lv = "type" -> ty.local
       [] lv = "field" -> Get(ty.fields, s, <<>>)
       [] lv = "method" -> Get(ty.methods, s, <<>>)
\* the same from the flat history
RECURSIVE Filter(_, _, _, _, _)
Filter(h, lv, p, n, s) == IF h = <<>> THEN <<>>
                          ELSE LET r == Filter(Tail(h), lv, p, n, s) IN
                               IF Head(h)[1] = lv /\ Head(h)[2] = p /\ Head(h)[3] = n /\ Head(h)[4] = s THEN <<Head(h)[5]>> \o r ELSE r

Keys == {<<"pkg", p, "", "">> : p \in Pk} \cup {<<"func", p, n, "">> : p \in Pk, n \in Nm} \cup {<<"type", p, n, "">> : p \in Pk, n \in Nm}
        \cup {<<"field", p, n, s>> : p \in Pk, n \in Nm, s \in Sb} \cup {<<"method", p, n, s>> : p \in Pk, n \in Nm, s \in Sb}

Agree == \A k \in Keys : ListOf(k[1], k[2], k[3], k[4]) = Filter(flat, k[1], k[2], k[3], k[4])
\* the levels are independent: a key's list only changes by an Add of exactly that key
Independent == [][\A k \in Keys : (ListOf(k[1], k[2], k[3], k[4]))' # ListOf(k[1], k[2], k[3], k[4]) =>
                    (flat' # flat /\ <<flat'[Len(flat')][1], flat'[Len(flat')][2], flat'[Len(flat')][3], flat'[Len(flat')][4]>> = k)]_vars

EmitInv == Emit => PrintT("@E " \o ToString(flat))
=============================================================================
