----------------------------- MODULE PackageOnly -----------------------------
(***************************************************************************)
(* The @packageonly checker (src/packageonly/checker.go).                  *)
(*                                                                         *)
(* Package d declares type PT, function PF and method S.PM, all carrying   *)
(* the allow-list shape al, and type PT2 with a bare @packageonly.         *)
(* The package under analysis P is                                         *)
(*    "d"  the declaring package itself (always allowed),                  *)
(*    "u"  path m/u,  declared name u  (name = last path element),         *)
(*    "v"  path m/vv, declared name v  (name # last path element).         *)
(* Allow-list shapes (what the @packageonly line(s) of an item contain):   *)
(*    none      the item is not annotated                                  *)
(*    bare      `@packageonly`                (only d)                     *)
(*    name      the declared name of P        path      the import path    *)
(*    lastelem  the last path element of P    other     some other package *)
(*    two_in    two lines, the second names P two_out   two lines w/o P    *)
(*    dup       P's name twice and its path                                *)
(* A container is one top-level declaration with one tagged reference:     *)
(*    callF d.PF(), funcValue d.PF -> PKGO02 (every reference)             *)
(*    methCall s.PM(), methValue s.PM -> PKGO03 (every reference)          *)
(*    methCallPromoted / methValuePromoted: e.PM() / e.PM where e is a     *)
(*    local struct embedding d.S (the method is promoted) -> PKGO03        *)
(*    methCallVar gs.PM() on a package-level variable declared in another  *)
(*    file (the referencing file does not import d) -> PKGO03              *)
(*    methCallPS w.PSM() where PSM is a method (allow-list shape al) of a  *)
(*    type PS that carries its own, wide @packageonly (u and v allowed):   *)
(*    the method's list decides -> PKGO03                                  *)
(*    typeLit, typeVar, typeField, typeParam, typeResult (PT), typeLit2    *)
(*    (PT2) -> PKGO01 once per file and type;  plain -> un-annotated item  *)
(*                                                                         *)
(* L1: reported iff P # d and neither path(P) nor name(P) is in the union  *)
(* of the lists.  Deviations: FirstLineOnly, NoNameMatch, NoDedup,         *)
(* NoUnalias (a type reference spelled through an alias is invisible),     *)
(* KeysNotVisited (keys of literal elements are not walked), GroupDocLeaks  *)
(* (PT's doc reaches the undocumented next spec of its type group),         *)
(* SamePosOnce (two reports at one expression start collapse into one),    *)
(* MethodKeyWithoutType (the allow decision of a method is cached under    *)
(* its bare name: S.PM decides for S2.PM and vice versa),                  *)
(* ExportedOnly (items with unexported names do not cross packages),       *)
(* TypeHidesMethods (the allow-list of an annotated type replaces the      *)
(* lists of its methods).                                                  *)
(***************************************************************************)
EXTENDS Integers, Sequences, FiniteSets, TLC, Json

CONSTANTS Mode, Deviations, Emit

VARIABLES prog, fi, ci, ph, reported, diags, memo    \* memo: the allow decision taken for the first method *named* PM (read by MethodKeyWithoutType only)

vars == <<prog, fi, ci, ph, reported, diags, memo>>

Shapes == {"none", "bare", "name", "path", "lastelem", "other", "two_in", "two_out", "dup"}
Refs == {"callF", "funcValue", "methCall", "methCallPS", "methCallS2", "chainCall", "aliasPlain", "mapKeyCall", "typeLitPG", "methCallHidden", "typeVarHidden", "methCallVar", "methValue", "methCallPromoted", "methValuePromoted", "typeLit", "typeVar", "typeField", "typeEmbed", "typeParam", "typeResult",
         "typeLit2", "plain"}
\* typeEmbed: the type as an embedded field, struct{ d.PT } (the identifier declares the field *and* uses the type)
TypeRefs == {"typeLit", "typeVar", "typeField", "typeEmbed", "typeParam", "typeResult", "typeLit2"}
HiddenRefs == {"methCallHidden", "typeVarHidden"}   \* d.Default.HM() on the unexported type hid; d.State, an exported alias of the unexported type state
Pkgs == {"d", "u", "v"}

\* C13: spelled type references are encoded as "<ref>@<spelling>"; the verdict ignores the spelling
Spells == {"alias", "alias3", "chain", "chain3", "ptralias", "ptralias3", "ptrchain", "ptrchain3", "rename", "paren"}
\* alias: type TA = d.PT in the using package; alias3: the same in a third package q; chain: type TA2 = TA; ptralias: type TP = *d.PT;
\* ptrchain: type TH = TP (an alias of an alias of a pointer); the ...3 forms declare the aliases in q
PtrSpells == {"ptralias", "ptralias3", "ptrchain", "ptrchain3"}
AliasSpells == Spells \ {"rename", "paren"}
SpellsOf(b) == CASE b = "typeLit" -> {"alias", "alias3", "chain", "chain3", "rename"}
                 [] b \in {"typeVar", "typeField", "typeParam", "typeResult"} -> Spells
                 [] b = "typeEmbed" -> {"alias", "alias3", "chain", "chain3", "rename"}   \* neither ( ) nor an alias of a pointer may be embedded
                 [] OTHER -> {}
Sp(b, sp) == b \o "@" \o sp
SpelledRefs == UNION {{Sp(b, sp) : sp \in SpellsOf(b)} : b \in TypeRefs}
BaseTab == [r \in SpelledRefs |-> CHOOSE b \in TypeRefs : \E sp \in SpellsOf(b) : r = Sp(b, sp)]
AliasTab == [r \in SpelledRefs |-> \E b \in TypeRefs : \E sp \in AliasSpells \cap SpellsOf(b) : r = Sp(b, sp)]
Base(r) == IF r \in SpelledRefs THEN BaseTab[r] ELSE r
ViaAlias(r) == r \in SpelledRefs /\ AliasTab[r]

PathOf(P) == CASE P = "d" -> "m/d" [] P = "u" -> "m/u" [] P = "v" -> "m/vv"
NameOf(P) == P
LastOf(P) == CASE P = "d" -> "d" [] P = "u" -> "u" [] P = "v" -> "vv"

\* the annotation lines of an item for using package P: a sequence of lists (one per @packageonly line)
Lines(al, P) ==
  CASE al = "none" -> <<>>
    [] al = "bare" -> << <<>> >>
    [] al = "name" -> << <<NameOf(P)>> >>
    [] al = "path" -> << <<PathOf(P)>> >>
    [] al = "lastelem" -> << <<LastOf(P)>> >>
    [] al = "other" -> << <<"m/x", "x">> >>
    [] al = "two_in" -> << <<"x">>, <<"y", NameOf(P)>> >>
    [] al = "two_out" -> << <<"x">>, <<"m/y">> >>
    [] al = "dup" -> << <<NameOf(P), NameOf(P)>>, <<PathOf(P)>> >>

Union(ls) == UNION {{ls[i][j] : j \in 1..Len(ls[i])} : i \in 1..Len(ls)}

\* mapKeyCall: map[int]int{d.PF(n): 1} - the reference stands in the key position of a literal element -> PKGO02
\* typeLitPG: a literal of d.PG, the undocumented spec that follows the annotated PT inside one `type ( ... )` group: never reported
\* aliasPlain: var v Hdr with `type Hdr = map[string][]string` declared in the using package - an alias of a type that is not a
\* defined type, unrelated to every annotation: never reported
\* methCallS2: s2.PM() - a method called PM like S.PM, on another type S2, restricted to d itself (bare @packageonly)
\* chainCall: d.NewPS().PSM() - two references in one expression: the function NewPS and the method PSM, both with shape al
ShapeOf(r0, al) == LET r == Base(r0) IN IF r \in {"typeLit2", "methCallS2"} THEN "bare" ELSE IF r \in {"plain", "aliasPlain", "typeLitPG"} THEN "none" ELSE al

Allowed(P, ls) == P = "d" \/ PathOf(P) \in Union(ls) \/ NameOf(P) \in Union(ls)

CodeOf(r0) == LET r == Base(r0) IN
             CASE r \in {"callF", "funcValue", "mapKeyCall"} -> "PKGO02" [] r = "chainCall" -> "PKGO03"
               [] r \in {"methCall", "methCallPS", "methCallS2", "methCallHidden", "methCallVar", "methValue", "methCallPromoted", "methValuePromoted"} -> "PKGO03"
               [] r \in TypeRefs \cup {"typeVarHidden"} -> "PKGO01" [] OTHER -> "none"

\* the second reference of an expression with two references
Code2Of(r) == IF r = "chainCall" THEN "PKGO02" ELSE "none"
Cand2(r, al, P) == IF Code2Of(r) # "none" /\ ShapeOf(r, al) # "none" /\ ~Allowed(P, Lines(ShapeOf(r, al), P)) THEN Code2Of(r) ELSE "none"
Cand(r, al, P) == IF ShapeOf(r, al) # "none" /\ CodeOf(r) # "none" /\ ~Allowed(P, Lines(ShapeOf(r, al), P)) THEN CodeOf(r) ELSE "none"

TypeOf(r) == IF Base(r) = "typeLit2" THEN "PT2" ELSE IF r = "typeVarHidden" THEN "state" ELSE IF r = "typeLitPG" THEN "PG" ELSE "PT"

Keys(p) == UNION {{<<f, i>> : i \in 1..Len(p.files[f])} : f \in 1..Len(p.files)}
Reported(p, f, i) ==
  LET r == p.files[f][i]
      code == Cand(r, p.al, p.pkg)
  IN /\ code # "none"
     /\ (code = "PKGO01" => \A j \in 1..(i - 1) : ~(Cand(p.files[f][j], p.al, p.pkg) = "PKGO01" /\ TypeOf(p.files[f][j]) = TypeOf(r)))
L1(p) == {<<k[1], k[2], Cand(p.files[k[1]][k[2]], p.al, p.pkg)>> : k \in {k \in Keys(p) : Reported(p, k[1], k[2])}}
         \cup {<<k[1], k[2], Cand2(p.files[k[1]][k[2]], p.al, p.pkg)>> : k \in {k \in Keys(p) : Cand2(p.files[k[1]][k[2]], p.al, p.pkg) # "none"}}

SeqRefs == {"typeLit", "typeVar", "typeEmbed", "typeParam", "typeLit2", "callF", "methCall", "methCallPS", "methCallS2", "methCallVar", "typeVarHidden"}

InitProg ==
  \/ /\ Mode = "single"
     /\ \E al \in Shapes, P \in Pkgs, r \in Refs : prog = [al |-> al, pkg |-> P, files |-> << <<r>> >>]
  \/ /\ Mode = "spell"
     /\ \E al \in {"bare", "name", "other"}, P \in {"u", "v"}, r \in SpelledRefs : prog = [al |-> al, pkg |-> P, files |-> << <<r>> >>]
  \/ /\ Mode = "seq2"
     /\ \E al \in {"bare", "name", "other", "two_in", "two_out"}, P \in Pkgs : \E r1 \in SeqRefs, r2 \in SeqRefs :
          \/ prog = [al |-> al, pkg |-> P, files |-> << <<r1, r2>> >>]
          \/ prog = [al |-> al, pkg |-> P, files |-> << <<r1>>, <<r2>> >>]
  \/ /\ Mode = "seq3"
     /\ \E al \in {"bare", "two_in"}, P \in {"u", "v"} : \E r1 \in SeqRefs, r2 \in SeqRefs, r3 \in SeqRefs :
          \/ prog = [al |-> al, pkg |-> P, files |-> << <<r1, r2, r3>> >>]
          \/ prog = [al |-> al, pkg |-> P, files |-> << <<r1, r2>>, <<r3>> >>]

Init == /\ InitProg
        /\ fi = 1 /\ ci = 0 /\ ph = "begin"
        /\ reported = {} /\ memo = "none"
        /\ diags = {}

CurR == prog.files[fi][ci]

BeginFile ==
  /\ ph = "begin"
  /\ reported' = {}
  /\ ci' = 1 /\ ph' = "visit"
  /\ UNCHANGED <<prog, fi, diags, memo>>

\* the attachment index: every line of every annotation contributes its packages (plus the declaring package)
IndexLines(sh, P) == IF "FirstLineOnly" \in Deviations /\ Len(Lines(sh, P)) > 1 THEN <<Lines(sh, P)[1]>> ELSE Lines(sh, P)
IndexAllowed(P, ls) == P = "d" \/ PathOf(P) \in Union(ls) \/ (~("NoNameMatch" \in Deviations) /\ NameOf(P) \in Union(ls))

Visit ==
  /\ ph = "visit"
  /\ LET r == CurR
         sh == ShapeOf(r, prog.al)
         pmRef == r \in {"methCall", "methCallVar", "methValue", "methCallPromoted", "methValuePromoted", "methCallS2"}
         own == IF sh = "none" \/ IndexAllowed(prog.pkg, IndexLines(sh, prog.pkg)) THEN "allow" ELSE "deny"
         decided == IF memo = "none" THEN own ELSE memo
         code == IF "MethodKeyWithoutType" \in Deviations /\ pmRef THEN (IF decided = "deny" THEN "PKGO03" ELSE "none")
                 ELSE IF "NoUnalias" \in Deviations /\ ViaAlias(r) THEN "none"
                 ELSE IF "TypeHidesMethods" \in Deviations /\ r = "methCallPS" THEN "none"
                 ELSE IF "KeysNotVisited" \in Deviations /\ r = "mapKeyCall" THEN "none"
                 ELSE IF "GroupDocLeaks" \in Deviations /\ r = "typeLitPG" /\ ~IndexAllowed(prog.pkg, IndexLines(prog.al, prog.pkg)) /\ prog.al # "none" THEN "PKGO01"
                 ELSE IF "ExportedOnly" \in Deviations /\ r \in HiddenRefs /\ prog.pkg # "d" THEN "none"
                 ELSE IF sh # "none" /\ CodeOf(r) # "none" /\ ~IndexAllowed(prog.pkg, IndexLines(sh, prog.pkg)) THEN CodeOf(r) ELSE "none"
         \* SamePosOnce: two diagnostics anchored at the same expression start are reported once (the later one is dropped)
         code2 == IF Code2Of(r) = "none" \/ sh = "none" \/ IndexAllowed(prog.pkg, IndexLines(sh, prog.pkg)) \/ ("SamePosOnce" \in Deviations /\ code # "none")
                  THEN "none" ELSE Code2Of(r)
         second == IF code2 = "none" THEN {} ELSE {<<fi, ci, code2>>}
     IN IF code = "none" THEN diags' = diags \cup second /\ UNCHANGED reported
        ELSE IF code = "PKGO01" /\ ~("NoDedup" \in Deviations)
          THEN IF TypeOf(r) \in reported THEN UNCHANGED <<reported, diags>>
               ELSE reported' = reported \cup {TypeOf(r)} /\ diags' = diags \cup {<<fi, ci, code>>}
        ELSE diags' = diags \cup {<<fi, ci, code>>} \cup second /\ UNCHANGED reported
  /\ memo' = (LET r == CurR
                   sh == ShapeOf(r, prog.al)
                   pmRef == r \in {"methCall", "methCallVar", "methValue", "methCallPromoted", "methValuePromoted", "methCallS2"}
                   own == IF sh = "none" \/ IndexAllowed(prog.pkg, IndexLines(sh, prog.pkg)) THEN "allow" ELSE "deny"
               IN IF pmRef /\ memo = "none" THEN own ELSE memo)
  /\ IF ci < Len(prog.files[fi]) THEN ci' = ci + 1 /\ ph' = "visit" ELSE ci' = ci /\ ph' = "endfile"
  /\ UNCHANGED <<prog, fi>>

EndFile ==
  /\ ph = "endfile"
  /\ IF fi < Len(prog.files) THEN fi' = fi + 1 /\ ci' = 0 /\ ph' = "begin" ELSE fi' = fi /\ ci' = ci /\ ph' = "done"
  /\ UNCHANGED <<prog, reported, diags, memo>>

Finished == ph = "done" /\ UNCHANGED vars

Next == BeginFile \/ Visit \/ EndFile \/ Finished

Spec == Init /\ [][Next]_vars /\ WF_vars(BeginFile \/ Visit \/ EndFile)

Done == ph = "done"
Termination == <>Done

Exact == Done => diags = L1(prog)
NoAnnNoDiag == (Done /\ prog.al = "none" /\ \A f \in 1..Len(prog.files) : \A i \in 1..Len(prog.files[f]) : prog.files[f][i] \notin {"typeLit2", "methCallS2"}) => diags = {}
OwnPackageFree == (Done /\ prog.pkg = "d") => diags = {}
Stable == [][prog' = prog /\ diags \subseteq diags']_vars

EmitInv == (Emit /\ Done) =>
   PrintT("@E " \o ToJson([al |-> prog.al, pkg |-> prog.pkg, files |-> prog.files, lines |-> Lines(prog.al, prog.pkg),
                            expect |-> L1(prog)]))
=============================================================================
