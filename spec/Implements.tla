----------------------------- MODULE Implements -----------------------------
(***************************************************************************)
(* The @implements checker (src/annotations: qualifier resolution;         *)
(* src/implements: interface / type loading, method matching, reporting).  *)
(*                                                                         *)
(* Abstract program: package u declares type T with `@implements [&][q.]I` *)
(* and (at most) one relevant method M; the interface I has one method M   *)
(* (two in the "two" family: M and Extra).  A scenario fixes               *)
(*   qual    how the annotation names the interface's package:             *)
(*           none (I lives in u), declared (import "m/d", qualifier d),    *)
(*           diffname (import "m/go-bar" whose declared name is bar,       *)
(*           qualifier bar), alias (import x "m/d", qualifier x),          *)
(*           selfname (qualifier u = the current package's own name, bound *)
(*           by no import), unbound (qualifier nope), lastelem (import     *)
(*           "m/gobar" whose declared name is bar, qualifier gobar = the   *)
(*           last path element, which Go does not bind)                    *)
(*   ikind   what the name I denotes there: iface / nonIface / absent      *)
(*   cptr    the contract is &I (method set of *T) or I (method set of T)  *)
(*   recv    receiver of T's method M: value / pointer / none (no method)  *)
(*   via     M is declared on T directly, or promoted from an embedded E   *)
(*           (embedVal) or *E (embedPtr)                                   *)
(*   pT, pI  parameter type of M on the type / in the interface            *)
(*   rT, rI  result types; vT, vI variadic flags (parameter is ...elem)    *)
(* Type terms are Go type expressions; Canon maps a term to its identity   *)
(* class under Go's type identity (byte = uint8, any = interface{}, an     *)
(* alias = its target).  L1 is Go's own rule: IMPL01 iff the qualifier is  *)
(* not bound; else IMPL02 iff no interface of that name; else IMPL03 iff   *)
(* the method set of T (or *T) lacks a method of I or has it with a        *)
(* non-identical signature, listing exactly those methods.                 *)
(* L2: ResolveQualifier -> LookupInterface -> BuildMethodSet -> Compare.   *)
(* Deviations: StringMatch (the pinned matcher: printed name + package +   *)
(* one pointer flag - known findings D12), RecvOfOrigin (a promoted        *)
(* method is classified by the receiver of its declaration - D12),         *)
(* CurrentPkgName (every import is recorded under the current package's    *)
(* name - D10/D11), SharedImports (the import table is shared by the files *)
(* of a package), OwnPkgLookup (methods are looked up under the package of *)
(* the annotated type: unexported methods of other packages are missed),   *)
(* PathElemBinds (an import is also found under the last element of its    *)
(* path although its declared name differs - known finding KF1).           *)
(***************************************************************************)
EXTENDS Integers, Sequences, FiniteSets, TLC, Json

CONSTANTS Family, Deviations, Emit

VARIABLES sc, ph, bound, found, inms, res, res2

vars == <<sc, ph, bound, found, inms, res, res2>>

(* term table: <<term, identity class, key of the pinned matcher>> *)
Terms == {
  <<"int", "int", "int">>, <<"string", "string", "string">>, <<"byte", "uint8", "byte">>, <<"uint8", "uint8", "uint8">>,
  <<"error", "error", "error">>, <<"any", "interface{}", "any">>, <<"interface{}", "interface{}", "interface {}">>,
  <<"d.N", "d.N", "d.N">>, <<"d.AN", "d.N", "alias:d.AN">>, <<"A", "int", "alias:A">>,
  <<"*int", "*int", "ptr:int">>, <<"**int", "**int", "ptr:int">>, <<"*d.N", "*d.N", "ptr:d.N">>,
  <<"[]int", "[]int", "[]int">>, <<"[]byte", "[]uint8", "[]byte">>, <<"[]uint8", "[]uint8", "[]uint8">>, <<"[]d.N", "[]d.N", "[]d.N">>,
  <<"[]*d.N", "[]*d.N", "[]*d.N">>, <<"map[string]int", "map[string]int", "map[string]int">>,
  <<"map[string]any", "map[string]interface{}", "map[string]any">>, <<"map[string]interface{}", "map[string]interface{}", "map[string]interface {}">>,
  <<"chan int", "chan int", "chan int">>, <<"func(int) string", "func(int) string", "func(int) string">>,
  <<"func(d.N) error", "func(d.N) error", "func(d.N) error">>}
TermNames == {t[1] : t \in Terms}
Row(n) == CHOOSE t \in Terms : t[1] = n
Canon(n) == Row(n)[2]
CodeKey(n) == Row(n)[3]
\* terms that can be written in the interface's package (no alias local to u)
ITerms == TermNames \ {"A"}
\* terms that do not mention package d (usable when the interface lives in m/go-bar or in u without importing d)
PlainTerms == {"int", "string", "byte", "uint8", "error", "any", "interface{}", "*int", "**int", "[]int", "[]byte", "[]uint8",
               "map[string]int", "chan int", "func(int) string"}

Quals == {"none", "declared", "diffname", "alias", "selfname", "unbound", "lastelem"}

\* sib = "binds": an earlier file of the same package imports, under the qualifier's name, a package that has no I
\* (imports are file-scoped: the annotated file's own imports decide)
Base == [qual |-> "declared", ikind |-> "iface", cptr |-> TRUE, recv |-> "value", via |-> "direct",
         pT |-> "int", pI |-> "int", rT |-> "string", rI |-> "string", vT |-> FALSE, vI |-> FALSE, two |-> FALSE, sib |-> "none", sealed |-> FALSE, second |-> "none", shadow |-> FALSE]
\* shadow = TRUE: the file also imports (under another name) a package whose import path *ends in* the interface package's path
\* (m/x/m/d next to m/d) and which declares an interface I with a different method: Go resolves the qualifier to m/d only
\* second: T carries one more @implements line, before (..1) or after (..2) the main one: unbound (`nope2.J`, IMPL01),
\* viol (`d.V` with a method T does not have, IMPL03 missing Nope), ok (`d.E0`, an empty interface); annotations are judged one by one
Seconds == {"unbound1", "unbound2", "viol1", "viol2", "ok1", "ok2"}
\* sealed = TRUE: the interface is d.Sealed with the *unexported* method seal(), which T can only obtain by embedding a type of d:
\* via foreignVal (struct{ d.Base }), foreignPtr (struct{ *d.Base }), foreignIface (struct{ d.Sealed }); recv is the receiver kind
\* of d's own method (Base.seal has a value receiver, PBase.seal a pointer receiver)

InitSc ==
  \/ /\ Family = "param"     \* every pair of parameter types
     /\ \E a \in TermNames, b \in ITerms : sc = [Base EXCEPT !.pT = a, !.pI = b]
  \/ /\ Family = "result"    \* every pair of result types
     /\ \E a \in TermNames, b \in ITerms : sc = [Base EXCEPT !.rT = a, !.rI = b]
  \/ /\ Family = "variadic"
     /\ \E a \in {"int", "[]int", "any", "d.N"}, b \in {"int", "[]int", "any", "d.N"}, v1 \in BOOLEAN, v2 \in BOOLEAN :
          sc = [Base EXCEPT !.pT = a, !.pI = b, !.vT = v1, !.vI = v2]
  \/ /\ Family = "mset"      \* Go's method-set rules
     /\ \E c \in BOOLEAN, r \in {"value", "pointer", "none"}, v \in {"direct", "embedVal", "embedPtr"}, t \in BOOLEAN :
          /\ (r = "none" => v = "direct")
          /\ sc = [Base EXCEPT !.cptr = c, !.recv = r, !.via = v, !.two = t]
  \/ /\ Family = "sealed"    \* methods of another package that are not exported
     /\ \E c \in BOOLEAN, r \in {"value", "pointer"}, v \in {"foreignVal", "foreignPtr", "foreignIface"} :
          /\ (v = "foreignIface" => r = "value")
          /\ sc = [Base EXCEPT !.cptr = c, !.recv = r, !.via = v, !.sealed = TRUE]
  \/ /\ Family = "qual"      \* qualifier resolution and interface lookup
     /\ \E q \in Quals, k \in {"iface", "embedOnly", "nonIface", "absent"}, c \in BOOLEAN, r \in {"value", "none"}, a \in {"int", "string"}, sb \in {"none", "binds"}, sh \in BOOLEAN :
          /\ (sb = "binds" => q \in {"declared", "alias", "unbound"})
          /\ (sh => q \in {"declared", "alias"} /\ sb = "none")
          /\ sc = [Base EXCEPT !.qual = q, !.ikind = k, !.cptr = c, !.recv = r, !.pT = a, !.sib = sb, !.shadow = sh]

  \/ /\ Family = "multi"     \* two annotations on one type
     /\ \E q \in {"declared", "unbound"}, c \in BOOLEAN, r \in {"value", "pointer", "none"}, x \in Seconds :
          sc = [Base EXCEPT !.qual = q, !.cptr = c, !.recv = r, !.second = x]

Init == InitSc /\ ph = "resolve" /\ bound = FALSE /\ found = FALSE /\ inms = FALSE /\ res = <<"none", {}>> /\ res2 = <<"none", {}>>

(***************************************************************************)
(* L1                                                                      *)
(***************************************************************************)
Bound(q) == q \in {"none", "declared", "diffname", "alias"}
InMethodSet(s) == s.recv # "none" /\ (s.cptr \/ s.recv = "value" \/ s.via \in {"embedPtr", "foreignPtr", "foreignIface"})
SigIdentical(s) == Canon(s.pT) = Canon(s.pI) /\ Canon(s.rT) = Canon(s.rI) /\ s.vT = s.vI
MName(s) == IF s.sealed THEN "seal" ELSE "M"
\* ikind embedOnly: I is `interface{ I1 }` with the method declared in I1 only - the same method set as iface
IsIface(s) == s.ikind \in {"iface", "embedOnly"}
Missing(s) == (IF InMethodSet(s) /\ SigIdentical(s) THEN {} ELSE {MName(s)}) \cup (IF s.two THEN {"Extra"} ELSE {})
L1(s) == IF ~Bound(s.qual) THEN <<"IMPL01", {}>>
         ELSE IF ~IsIface(s) THEN <<"IMPL02", {}>>
         ELSE IF Missing(s) = {} THEN <<"none", {}>> ELSE <<"IMPL03", Missing(s)>>

L1Second(s) == CASE s.second \in {"unbound1", "unbound2"} -> <<"IMPL01", {}>>
                  [] s.second \in {"viol1", "viol2"} -> <<"IMPL03", {"Nope"}>>
                  [] OTHER -> <<"none", {}>>
\* the first annotation of T in comment order has an unbound qualifier
FirstUnbound(s) == s.second = "unbound1" \/ (s.second \in {"unbound2", "viol2", "ok2"} /\ ~Bound(s.qual))

(***************************************************************************)
(* L2                                                                      *)
(***************************************************************************)
\* the import table of the file: an import is found under its explicit alias, else under the imported package's declared name
ResolveQualifier ==
  /\ ph = "resolve"
  /\ bound' = IF "PathElemBinds" \in Deviations /\ sc.qual = "lastelem" THEN TRUE   \* fallback: the qualifier matches the last path element
              ELSE IF "SharedImports" \in Deviations /\ sc.sib = "binds" THEN TRUE       \* the earlier file's binding is found first
              ELSE IF "CurrentPkgName" \in Deviations
                THEN (CASE sc.qual = "none" -> TRUE
                        [] sc.qual \in {"declared", "alias"} -> TRUE       \* alias / last path element still match
                        [] sc.qual = "diffname" -> FALSE                   \* "bar" is neither alias, recorded name (u) nor last element (go-bar)
                        [] sc.qual = "selfname" -> TRUE                    \* every import is recorded under the name u
                        [] OTHER -> FALSE)
                ELSE Bound(sc.qual)
  /\ ph' = "lookup"
  /\ UNCHANGED <<sc, found, inms, res, res2>>

LookupInterface ==
  /\ ph = "lookup"
  /\ found' = IF "SharedImports" \in Deviations /\ sc.sib = "binds" THEN FALSE    \* ... and leads to a package without I
              ELSE (bound /\ IsIface(sc) /\ ~(sc.qual = "selfname"))       \* resolved to some other import: no such interface there
  /\ ph' = "mset"
  /\ UNCHANGED <<sc, bound, inms, res, res2>>

BuildMethodSet ==
  /\ ph = "mset"
  /\ inms' = IF "RecvOfOrigin" \in Deviations
               THEN sc.recv # "none" /\ (sc.cptr \/ sc.recv = "value")
               ELSE IF "OwnPkgLookup" \in Deviations /\ sc.sealed THEN sc.cptr    \* an unexported foreign method is not found in the value method set
               ELSE InMethodSet(sc)
  /\ ph' = "compare"
  /\ UNCHANGED <<sc, bound, found, res, res2>>

Same(a, b) == IF "StringMatch" \in Deviations THEN CodeKey(a) = CodeKey(b) ELSE Canon(a) = Canon(b)
Compare ==
  /\ ph = "compare"
  \* DropTypeAfterUnbound: a type whose first annotation is unbound is left out of the type table; its other annotations are skipped silently
  /\ LET drop == "DropTypeAfterUnbound" \in Deviations /\ FirstUnbound(sc)
         main == IF ~bound THEN <<"IMPL01", {}>>
                 ELSE IF ~found THEN <<"IMPL02", {}>>
                 \* ExplicitMethodsOnly: an interface without methods of its own is loaded with an empty method list
                 ELSE IF "ExplicitMethodsOnly" \in Deviations /\ sc.ikind = "embedOnly" THEN <<"none", {}>>
                 ELSE LET ok == inms /\ Same(sc.pT, sc.pI) /\ Same(sc.rT, sc.rI) /\ sc.vT = sc.vI
                          miss == (IF ok THEN {} ELSE {MName(sc)}) \cup (IF sc.two THEN {"Extra"} ELSE {})
                      IN IF miss = {} THEN <<"none", {}>> ELSE <<"IMPL03", miss>>
         \* SuffixMatch: the interfaces of the shadow package are filed under the queried path as well and replace the real ones
         shadowed == IF "SuffixMatch" \in Deviations /\ sc.shadow /\ bound THEN <<"IMPL03", {"Other"}>> ELSE main
     IN /\ res' = IF drop /\ main[1] = "IMPL03" THEN <<"none", {}>> ELSE shadowed
        /\ res2' = IF drop /\ L1Second(sc)[1] = "IMPL03" THEN <<"none", {}>> ELSE L1Second(sc)
  /\ ph' = "done"
  /\ UNCHANGED <<sc, bound, found, inms>>

Finished == ph = "done" /\ UNCHANGED vars
Next == ResolveQualifier \/ LookupInterface \/ BuildMethodSet \/ Compare \/ Finished
Spec == Init /\ [][Next]_vars /\ WF_vars(ResolveQualifier \/ LookupInterface \/ BuildMethodSet \/ Compare)

Done == ph = "done"
Termination == <>Done
Exact == Done => res = L1(sc) /\ res2 = L1Second(sc)
\* the three codes are mutually exclusive and ordered
Ordered == Done => /\ (res[1] = "IMPL01" <=> ~Bound(sc.qual))
                   /\ (res[1] = "IMPL02" => Bound(sc.qual) /\ ~IsIface(sc))
CorrectIsSilent == (Done /\ Bound(sc.qual) /\ IsIface(sc) /\ InMethodSet(sc) /\ SigIdentical(sc) /\ ~sc.two) => res[1] = "none"

\* what the pinned implementation would answer (all three deviations): used to attribute known findings
Pinned(s) ==
  LET b == CASE s.qual = "diffname" -> FALSE [] s.qual = "selfname" -> TRUE [] OTHER -> Bound(s.qual)
      f == b /\ IsIface(s) /\ s.qual # "selfname"
      ms == s.recv # "none" /\ (s.cptr \/ s.recv = "value")
      ok == ms /\ CodeKey(s.pT) = CodeKey(s.pI) /\ CodeKey(s.rT) = CodeKey(s.rI) /\ s.vT = s.vI
      miss == (IF ok THEN {} ELSE {"M"}) \cup (IF s.two THEN {"Extra"} ELSE {})
  IN IF ~b THEN <<"IMPL01", {}>> ELSE IF ~f THEN <<"IMPL02", {}>> ELSE IF miss = {} THEN <<"none", {}>> ELSE <<"IMPL03", miss>>

\* KF1: what the implementation answers when the last path element is taken as a binding
KF1(s) == IF ~IsIface(s) THEN <<"IMPL02", {}>> ELSE IF Missing(s) = {} THEN <<"none", {}>> ELSE <<"IMPL03", Missing(s)>>

EmitInv == (Emit /\ Done) =>
   PrintT("@E " \o ToJson([sc |-> sc, code |-> L1(sc)[1], missing |-> L1(sc)[2], pinned_code |-> Pinned(sc)[1], pinned_missing |-> Pinned(sc)[2],
                            kf1_code |-> KF1(sc)[1], kf1_missing |-> KF1(sc)[2], code2 |-> L1Second(sc)[1], missing2 |-> L1Second(sc)[2]]))
=============================================================================
