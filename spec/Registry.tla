------------------------------ MODULE Registry ------------------------------
(***************************************************************************)
(* util.TypeAssociationRegistry and util.TypesMap (src/util/               *)
(* typesregistry.go, typesmap.go): the indexes every checker builds from   *)
(* the annotations of the current and the imported packages -              *)
(*   constructors of a type, @mutable fields of a type, @testonly          *)
(*   functions / methods (registry: package -> type -> list of names),     *)
(*   @immutable and @testonly types (types map: package -> set of names).  *)
(*                                                                         *)
(* L2: the nested maps `reg` and `tm`, one action per Add.                 *)
(* L1: the flat history `flat` of Add calls.  Every query of the API must  *)
(* answer from the nested maps what the history says:                      *)
(*   Match(p, n, t)        iff <<"assoc", p, t, n>> was added              *)
(*   GetAssociated(p, t)   the names added for (p, t), in insertion order, *)
(*                         duplicates kept                                 *)
(*   HasType(p, t)         iff some name was added for (p, t)              *)
(*   Len()                 number of assoc Adds (duplicates counted)       *)
(*   Contains(p, t)        iff <<"type", p, t>> was added                  *)
(*   TypesMap.Len()        number of *distinct* (p, t) added               *)
(*   Empty()               iff nothing was added to that structure         *)
(* Keys of different packages / types never influence each other           *)
(* (Independent): a constructor of p.T is not a constructor of q.T.        *)
(***************************************************************************)
EXTENDS Integers, Sequences, FiniteSets, TLC, Json

CONSTANTS MaxOps, Emit, Deviations    \* PkgBlind: entries are filed under one package whatever package they were added for

VARIABLES reg, tm, flat

vars == <<reg, tm, flat>>

Pk == {"p", "q"}
Ty == {"A", "B"}
Nm == {"f", "g"}

Ops == {<<"assoc", p, t, n>> : p \in Pk, t \in Ty, n \in Nm} \cup {<<"type", p, t, "">> : p \in Pk, t \in Ty}

Get(f, k, dflt) == IF k \in DOMAIN f THEN f[k] ELSE dflt
Put(f, k, v) == [x \in DOMAIN f \cup {k} |-> IF x = k THEN v ELSE f[x]]

Init == reg = <<>> /\ tm = <<>> /\ flat = <<>>

Apply(op) ==
  LET pk == IF "PkgBlind" \in Deviations THEN "p" ELSE op[2] IN
  IF op[1] = "assoc"
    THEN /\ reg' = Put(reg, pk, Put(Get(reg, pk, <<>>), op[3], Append(Get(Get(reg, pk, <<>>), op[3], <<>>), op[4])))
         /\ UNCHANGED tm
    ELSE /\ tm' = Put(tm, pk, Get(tm, pk, {}) \cup {op[3]})
         /\ UNCHANGED reg

Next == /\ Len(flat) < MaxOps
        /\ \E op \in Ops : Apply(op) /\ flat' = Append(flat, op)
Spec == Init /\ [][Next]_vars

(* answers computed from the nested maps, as the API computes them *)
Assoc2(p, t) == Get(Get(reg, p, <<>>), t, <<>>)
Match2(p, n, t) == \E i \in 1..Len(Assoc2(p, t)) : Assoc2(p, t)[i] = n
HasType2(p, t) == Len(Assoc2(p, t)) > 0
RECURSIVE SumLen(_, _)
SumLen(f, ks) == IF ks = {} THEN 0 ELSE LET k == CHOOSE x \in ks : TRUE IN Len(f[k]) + SumLen(f, ks \ {k})
RECURSIVE SumPk(_)
SumPk(ps) == IF ps = {} THEN 0 ELSE LET p == CHOOSE x \in ps : TRUE IN SumLen(reg[p], DOMAIN reg[p]) + SumPk(ps \ {p})
Len2 == SumPk(DOMAIN reg)
Empty2 == DOMAIN reg = {}
Contains2(p, t) == t \in Get(tm, p, {})
RECURSIVE SumCard(_)
SumCard(ps) == IF ps = {} THEN 0 ELSE LET p == CHOOSE x \in ps : TRUE IN Cardinality(tm[p]) + SumCard(ps \ {p})
TLen2 == SumCard(DOMAIN tm)
TEmpty2 == DOMAIN tm = {}

(* the same from the flat history *)
RECURSIVE Names(_, _, _)
Names(h, p, t) == IF h = <<>> THEN <<>>
                  ELSE LET r == Names(Tail(h), p, t) IN
                       IF Head(h)[1] = "assoc" /\ Head(h)[2] = p /\ Head(h)[3] = t THEN <<Head(h)[4]>> \o r ELSE r
Added(op) == \E i \in 1..Len(flat) : flat[i] = op
NAssoc == Cardinality({i \in 1..Len(flat) : flat[i][1] = "assoc"})
TypesAdded == {<<p, t>> \in Pk \X Ty : Added(<<"type", p, t, "">>)}

Agree == /\ \A p \in Pk, t \in Ty : Assoc2(p, t) = Names(flat, p, t)
         /\ \A p \in Pk, t \in Ty, n \in Nm : Match2(p, n, t) <=> Added(<<"assoc", p, t, n>>)
         /\ \A p \in Pk, t \in Ty : HasType2(p, t) <=> \E n \in Nm : Added(<<"assoc", p, t, n>>)
         /\ Len2 = NAssoc /\ (Empty2 <=> NAssoc = 0)
         /\ \A p \in Pk, t \in Ty : Contains2(p, t) <=> <<p, t>> \in TypesAdded
         /\ TLen2 = Cardinality(TypesAdded) /\ (TEmpty2 <=> TypesAdded = {})
\* an Add changes the answers for its own (package, type) only
Independent == [][\A p \in Pk, t \in Ty :
                    (Assoc2(p, t)' # Assoc2(p, t) \/ Contains2(p, t)' # Contains2(p, t))
                       => (flat' # flat /\ flat'[Len(flat')][2] = p /\ flat'[Len(flat')][3] = t)]_vars

KeyList == <<<<"p", "A">>, <<"p", "B">>, <<"q", "A">>, <<"q", "B">>>>
EmitInv == Emit => PrintT("@E " \o ToJson([h |-> flat,
                                           assoc |-> [i \in 1..4 |-> Names(flat, KeyList[i][1], KeyList[i][2])],
                                           len |-> NAssoc, types |-> [i \in 1..4 |-> <<KeyList[i][1], KeyList[i][2]>> \in TypesAdded],
                                           tlen |-> Cardinality(TypesAdded)]))
=============================================================================
