----------------------------- MODULE Constructor -----------------------------
(***************************************************************************)
(* The @constructor checker (src/constructor/checker.go) as a walk over    *)
(* the top-level declarations of the files of one package.                 *)
(*                                                                         *)
(* Package d declares type T struct{...} with `@constructor <ann.ctors>`   *)
(* (spelled in one of the list spellings the grammar accepts) and the      *)
(* un-annotated U.  The package under analysis is d or u (imports d).      *)
(* A container is a top-level declaration with one tagged statement:       *)
(*   kind  ctor1 / ctor2 (functions NewT / MakeT), other, pmeth (method of *)
(*         T, d only), ometh, init, pkgvar (var _ = func() int {S}()),     *)
(*         pkgdecl (the statement itself is a package-level var decl)      *)
(*   stmt  lit T{..}, addrLit &T{..}, elidedVal []T{{..}}, elidedPtr       *)
(*         []*T{{..}}, elidedMap map[int]T{0:{..}}  -> CTOR01              *)
(*         new  new(T) -> CTOR02 ;  varZero  var x T -> CTOR03             *)
(*         varPtr var x *T, varBlank var _ T, onU U{..} -> nothing         *)
(*                                                                         *)
(* L2: the walk with cur = enclosing top-level function ("" outside),      *)
(* reset when a declaration is left.  L1: Verdict(c), per container.       *)
(* Deviations: LeakWalkState (cur survives the end of a function: a        *)
(* package-level `var g = T{}` after the constructor is accepted),         *)
(* LastCtorLineOnly (of several @constructor lines only the last counts),   *)
(* BareNameCache (annotation status cached per bare type name: d.T / o.T), *)
(* GroupDocLeaks (T's doc reaches the undocumented next spec of its group), *)
(* PtrAliasIsValue (`var v TP` with type TP = *T reported as CTOR03),      *)
(* PruneReported (the operands of a reported expression are not visited),  *)
(* CtorByBareName (u's own type T with constructors NewT, MakeT exempts    *)
(* instantiations of d.T inside u.NewT),                                   *)
(* CtorAnyPkg, NoUnalias, CtorAnyType (a constructor of one type is exempt *)
(* for every annotated type of its package).                               *)
(***************************************************************************)
EXTENDS Integers, Sequences, FiniteSets, TLC, Json

CONSTANTS Mode, Deviations, Emit

VARIABLES prog, fi, ci, ph, cur, diags, seenT    \* seenT: which type *named* T the walk of the package met first (only the BareNameCache deviation reads it)

vars == <<prog, fi, ci, ph, cur, diags, seenT>>

Kinds  == {"ctor1", "ctor2", "other", "pmeth", "ometh", "init", "pkgvar", "pkgdecl"}
Stmts  == {"lit", "addrLit", "elidedVal", "elidedPtr", "elidedMap", "new", "varZero", "varPtr", "varBlank", "onU", "litOT", "litTG",   \* litOT: a literal of o.T, an un-annotated type of another package that is also called T   \* litTG: a literal of d.TG, the undocumented spec after T in its type group
           "lit2", "new2", "varZero2", "nestNewInLit2",   \* d.T2{In: new(d.T)}: an instantiation of T inside a (reported) literal of T2
           "litRec", "newRec", "varRec",
           "varGroup"}   \* `v T` as a later spec of a `var ( ... )` group whose first spec is initialised with a function literal that declares a constant   \* on d.Rec, an exported alias of the unexported type rec with `@constructor newRec` (iff T is annotated)   \* the same on T2, a second type of d with `@constructor NewT2` (iff T is annotated)
Nests  == {"none", "if", "else", "for", "range", "switch", "select", "funclit", "defer", "go", "label",
           "funcassign", "funcvar", "funcarg", "funcfield", "block", "ifinit", "typeswitch"}
Spells == {"direct", "alias", "alias3", "chain", "ptralias", "rename", "paren"}   \* ptralias: type TP = *T, only for `var v TP` (a nil pointer, no instance)

\* csp = which accepted spelling of the constructor list is used (1..5), semantically irrelevant
Anns == [ctors : {<<>>, <<"NewT">>, <<"NewT", "MakeT">>}, csp : 1..6, imm : BOOLEAN]     \* csp 6: the two names on two separate @constructor lines

Range(s) == {s[i] : i \in 1..Len(s)}

Cont(k, s, n, sp) == [kind |-> k, stmt |-> s, nest |-> n, sp |-> sp]

Valid(c, pkg) ==
  /\ (c.kind = "pmeth" => pkg = "d")
  /\ (c.kind = "pkgdecl" => c.stmt \in {"lit", "addrLit", "new", "varZero", "varPtr", "elidedVal", "varGroup"} /\ c.nest = "none")
  /\ (c.stmt = "varGroup" => c.nest = "none" /\ c.sp = "direct")
  /\ (c.stmt \in {"lit2", "new2", "varZero2", "nestNewInLit2", "litRec", "newRec", "varRec"} => c.sp = "direct")
  /\ (c.stmt = "onU" => c.sp \in {"direct", "fnalias"})
  /\ (c.stmt = "litTG" => c.sp = "direct")
  /\ (c.stmt = "litOT" => c.sp = "direct" /\ pkg = "u")
  /\ (c.sp = "fnalias" => c.kind \in {"ctor1", "other", "init", "ometh"})
  /\ (c.sp = "paren" => c.stmt \in {"new", "varZero", "varPtr", "varBlank"})
  /\ (c.sp = "ptralias" => c.stmt = "varPtr")
  /\ (c.sp \in {"rename", "alias3"} => pkg = "u")

FnName(c) == CASE c.kind = "ctor1" -> "NewT" [] c.kind = "ctor2" -> "MakeT" [] c.kind = "init" -> "init"
               [] c.kind \in {"pkgvar", "pkgdecl"} -> "" [] OTHER -> "fn"

CtorCode(s) == CASE s \in {"lit", "addrLit", "elidedVal", "elidedPtr", "elidedMap", "lit2", "nestNewInLit2", "litRec"} -> "CTOR01"
                 [] s \in {"new", "new2", "newRec"} -> "CTOR02" [] s \in {"varZero", "varZero2", "varRec", "varGroup"} -> "CTOR03" [] OTHER -> "none"
OnT2(s) == s \in {"lit2", "new2", "varZero2", "nestNewInLit2", "litRec", "newRec", "varRec"}   \* not a type NewT / MakeT construct

Verdict(c, ann, pkg) ==
  IF /\ ann.ctors # <<>>
     /\ CtorCode(c.stmt) # "none"
     /\ ~(~OnT2(c.stmt) /\ pkg = "d" /\ c.kind \in {"ctor1", "ctor2"} /\ FnName(c) \in Range(ann.ctors))
  THEN CtorCode(c.stmt) ELSE "none"     \* NewT / MakeT are constructors of T, not of T2

Keys(p) == UNION {{<<f, i>> : i \in 1..Len(p.files[f])} : f \in 1..Len(p.files)}
\* the instantiation nested inside the statement's own expression (one more verdict on the same statement)
Inner(c) == IF c.stmt = "nestNewInLit2" THEN [c EXCEPT !.stmt = "new"] ELSE [c EXCEPT !.stmt = "onU"]
L1(p) == {<<k[1], k[2], Verdict(p.files[k[1]][k[2]], p.ann, p.pkg)>> : k \in {k \in Keys(p) : Verdict(p.files[k[1]][k[2]], p.ann, p.pkg) # "none"}}
         \cup {<<k[1], k[2], Verdict(Inner(p.files[k[1]][k[2]]), p.ann, p.pkg)>> : k \in {k \in Keys(p) : Verdict(Inner(p.files[k[1]][k[2]]), p.ann, p.pkg) # "none"}}

(***************************************************************************)
(* Program spaces (enumerated lazily in Init)                              *)
(***************************************************************************)
OneFile(c) == <<<<c>>>>
UniqueCtors(fs) ==
  LET all == UNION {{<<f, i>> : i \in 1..Len(fs[f])} : f \in 1..Len(fs)}
  IN \A k \in {"ctor1", "ctor2"} : Cardinality({x \in all : fs[x[1]][x[2]].kind = k}) <= 1

SeqStmts == {"lit", "new", "varZero", "varPtr", "lit2", "litTG", "litOT"}
SeqAnns  == {a \in Anns : a.csp = 1 /\ ~a.imm /\ a.ctors # <<>>}
SeqCont(pkg) == {c \in {Cont(k, s, "none", "direct") : k \in Kinds \ {"ometh", "ctor2"}, s \in SeqStmts} : Valid(c, pkg)}

Splits(cs) == {<<cs>>} \cup {<<SubSeq(cs, 1, k), SubSeq(cs, k + 1, Len(cs))>> : k \in 1..(Len(cs) - 1)}

InitProg ==
  \/ /\ Mode = "single0"   \* the slice of "single" without nesting and with the plain list spelling (non-vacuity runs of the deviations)
     /\ \E ann \in {a \in Anns : a.csp = 1}, pkg \in {"d", "u"}, k \in Kinds, s \in Stmts :
          /\ Valid(Cont(k, s, "none", "direct"), pkg)
          /\ prog = [ann |-> ann, pkg |-> pkg, files |-> OneFile(Cont(k, s, "none", "direct"))]
  \/ /\ Mode = "single"
     /\ \E ann \in Anns, pkg \in {"d", "u"}, k \in Kinds, s \in Stmts, n \in Nests :
          /\ Valid(Cont(k, s, n, "direct"), pkg)
          /\ (ann.csp > 2 => Len(ann.ctors) = 2) /\ (ann.ctors = <<>> => ann.csp = 1)
          /\ prog = [ann |-> ann, pkg |-> pkg, files |-> OneFile(Cont(k, s, n, "direct"))]
  \/ /\ Mode = "spell"
     /\ \E ann \in {a \in Anns : a.csp = 1 /\ ~a.imm}, pkg \in {"d", "u"}, k \in {"ctor1", "other", "init", "pkgvar", "pkgdecl"},
          s \in Stmts \ {"onU", "litTG", "litOT"}, sp \in Spells :
          /\ Valid(Cont(k, s, "none", sp), pkg)
          /\ prog = [ann |-> ann, pkg |-> pkg, files |-> OneFile(Cont(k, s, "none", sp))]
  \/ /\ Mode = "localalias"   \* C13: two functions declare the same local alias name for different types
     /\ \E ann \in {a \in Anns : a.csp = 1 /\ ~a.imm /\ a.ctors # <<>>}, pkg \in {"d", "u"}, k1 \in {"other", "init"}, k2 \in {"other", "ctor1", "ometh"},
          s1 \in {"onU", "lit"}, s2 \in {"onU", "lit", "new", "varZero", "addrLit"} :
          /\ s1 # s2
          /\ prog = [ann |-> ann, pkg |-> pkg, files |-> <<<<Cont(k1, s1, "none", "fnalias"), Cont(k2, s2, "none", "fnalias")>>>>]
  \/ /\ Mode = "seq2"
     /\ \E ann \in SeqAnns, pkg \in {"d", "u"} : \E c1 \in SeqCont(pkg), c2 \in SeqCont(pkg) :
          \E fs \in Splits(<<c1, c2>>) : UniqueCtors(fs) /\ prog = [ann |-> ann, pkg |-> pkg, files |-> fs]
  \/ /\ Mode = "seq3"
     /\ \E ann \in SeqAnns, pkg \in {"d", "u"} : \E c1 \in SeqCont(pkg), c2 \in SeqCont(pkg), c3 \in SeqCont(pkg) :
          \E fs \in Splits(<<c1, c2, c3>>) : UniqueCtors(fs) /\ prog = [ann |-> ann, pkg |-> pkg, files |-> fs]

Init == /\ InitProg
        /\ fi = 1 /\ ci = 0 /\ ph = "begin"
        /\ cur = "" /\ seenT = "none"
        /\ diags = {}

Leak == "LeakWalkState" \in Deviations

CurC == prog.files[fi][ci]

\* the constructor checker starts every file with an empty context
BeginFile ==
  /\ ph = "begin"
  /\ cur' = ""
  /\ ci' = 1 /\ ph' = "enter"
  /\ UNCHANGED <<prog, fi, diags, seenT>>

EnterDecl ==
  /\ ph = "enter" /\ ci <= Len(prog.files[fi])
  /\ IF CurC.kind \in {"pkgvar", "pkgdecl"} THEN UNCHANGED cur ELSE cur' = FnName(CurC)
  /\ ph' = "visit"
  /\ UNCHANGED <<prog, fi, ci, diags, seenT>>

TwinCtors == {"NewT", "MakeT"}
Seen(c) == ~("NoUnalias" \in Deviations /\ c.sp \in {"alias", "alias3", "chain", "fnalias"})
VisitVerdict(c) ==
  LET code == CtorCode(c.stmt)
      ownPkg == prog.pkg = "d" \/ "CtorAnyPkg" \in Deviations
      ctorsOfType == IF c.stmt \in {"litRec", "newRec", "varRec"} THEN {"newRec"}
                     ELSE IF OnT2(c.stmt) /\ ~("CtorAnyType" \in Deviations) THEN {"NewT2"} ELSE Range(prog.ann.ctors)
      \* when package u has a function NewT / MakeT it also declares a type of its own called T with those constructors (TwinCtors)
      twinExempt == "CtorByBareName" \in Deviations /\ prog.pkg = "u" /\ cur \in TwinCtors
      \* LastCtorLineOnly: with the names on two @constructor lines (csp 6) only the last line's name (MakeT) is registered
      exempt == ((ownPkg /\ cur \in ctorsOfType) \/ twinExempt) /\ ~("LastCtorLineOnly" \in Deviations /\ prog.ann.csp = 6 /\ cur = "NewT" /\ ~OnT2(c.stmt))
      \* PtrAliasIsValue: a variable whose type is an alias of a pointer type is taken for an instance
      code2 == IF "PtrAliasIsValue" \in Deviations /\ c.stmt = "varPtr" /\ c.sp = "ptralias" THEN "CTOR03"
               ELSE IF "GroupDocLeaks" \in Deviations /\ c.stmt = "litTG" THEN "CTOR01"
               ELSE IF "VarFlagClobbered" \in Deviations /\ c.stmt = "varGroup" THEN "none" ELSE code
  IN IF prog.ann.ctors = <<>> \/ code2 = "none" \/ ~Seen(c) \/ exempt THEN "none" ELSE code2

Visit ==
  /\ ph = "visit"
  /\ LET onT == ~OnT2(CurC.stmt) /\ CurC.stmt \notin {"onU", "litTG", "litOT"} /\ CtorCode(CurC.stmt) # "none"     \* an instantiation of d.T
         kindT == IF CurC.stmt = "litOT" THEN "plain" ELSE IF onT THEN (IF prog.ann.ctors # <<>> THEN "ann" ELSE "plain") ELSE "none"
         first == IF seenT = "none" THEN kindT ELSE seenT
         \* BareNameCache: "has @constructor?" is remembered per bare type name - the first type called T decides for the other
         v0 == VisitVerdict(CurC)
         v == IF "BareNameCache" \in Deviations /\ kindT # "none"
                THEN (IF first = "plain" THEN "none" ELSE IF CurC.stmt = "litOT" THEN "CTOR01" ELSE v0)
                ELSE v0
         \* the walk goes on into the operands of a reported expression (PruneReported: it does not)
         w == IF "PruneReported" \in Deviations /\ v # "none" THEN "none" ELSE VisitVerdict(Inner(CurC))
     IN diags' = diags \cup (IF v = "none" THEN {} ELSE {<<fi, ci, v>>}) \cup (IF w = "none" THEN {} ELSE {<<fi, ci, w>>})
  /\ seenT' = (LET onT == ~OnT2(CurC.stmt) /\ CurC.stmt \notin {"onU", "litTG", "litOT"} /\ CtorCode(CurC.stmt) # "none"
                    kindT == IF CurC.stmt = "litOT" THEN "plain" ELSE IF onT THEN (IF prog.ann.ctors # <<>> THEN "ann" ELSE "plain") ELSE "none"
                IN IF seenT = "none" THEN kindT ELSE seenT)
  /\ ph' = "leave"
  /\ UNCHANGED <<prog, fi, ci, cur>>

LeaveDecl ==
  /\ ph = "leave"
  /\ IF Leak THEN UNCHANGED cur ELSE cur' = ""
  /\ IF ci < Len(prog.files[fi]) THEN ci' = ci + 1 /\ ph' = "enter" ELSE ci' = ci /\ ph' = "endfile"
  /\ UNCHANGED <<prog, fi, diags, seenT>>

EndFile ==
  /\ ph = "endfile"
  /\ IF fi < Len(prog.files) THEN fi' = fi + 1 /\ ci' = 0 /\ ph' = "begin" ELSE fi' = fi /\ ci' = ci /\ ph' = "done"
  /\ UNCHANGED <<prog, cur, diags, seenT>>

Finished == ph = "done" /\ UNCHANGED vars

Next == BeginFile \/ EnterDecl \/ Visit \/ LeaveDecl \/ EndFile \/ Finished

Spec == Init /\ [][Next]_vars /\ WF_vars(BeginFile \/ EnterDecl \/ Visit \/ LeaveDecl \/ EndFile)

Done == ph = "done"
Termination == <>Done

Exact == Done => diags = L1(prog)
NoAnnNoDiag == (Done /\ prog.ann.ctors = <<>>) => diags = {}
ContextScoped == [][(ph = "leave" /\ ~Leak) => cur' = ""]_vars
Stable == [][prog' = prog /\ diags \subseteq diags']_vars

EmitInv == (Emit /\ Done) =>
   PrintT("@E " \o ToJson([ann |-> prog.ann, pkg |-> prog.pkg, files |-> prog.files, expect |-> L1(prog)]))
=============================================================================
