------------------------------ MODULE MCCodes ------------------------------
(***************************************************************************)
(* Prints the code table of Codes.tla (which every other module extends)   *)
(* for the conformance check against src/codes/codes.go: the check list of *)
(* every code, category and a few unknown strings, the category, analyzer  *)
(* and documentation page of every code.  One state.                       *)
(***************************************************************************)
EXTENDS Codes, TLC, Json

VARIABLE x

Probe == AllCodes \cup Cats \cup {"ALL", "FOO1", "imm01", "IMM05", "XIMM01", "IM", "CTOR0"}

Table == [hier  |-> [c \in Probe |-> Hier(c)],
          cat   |-> [c \in AllCodes |-> CatOf(c)],
          doc   |-> [c \in AllCodes |-> DocPage(CatOf(c))],
          codes |-> [k \in Cats |-> CodesOf(k)]]

\* sanity of the table itself
Disjoint == \A a, b \in Cats : a # b => CodesOf(a) \cap CodesOf(b) = {}
SixteenCodes == Cardinality(AllCodes) = 16
HierEndsWithSelf == \A c \in Probe : Hier(c)[Len(Hier(c))] = c \/ c = "ALL"
ASSUME Disjoint /\ SixteenCodes /\ HierEndsWithSelf

Init == x = 0 /\ PrintT("@E " \o ToJson(Table))
Next == UNCHANGED x
Spec == Init /\ [][Next]_x
=============================================================================
