------------------------------- MODULE Config -------------------------------
(***************************************************************************)
(* Configuration of gogreement (src/config/config.go, src/analyzer:         *)
(* ConfigReader, runConfig) and its effect on what is reported.            *)
(*                                                                         *)
(* Options: scan (scan-tests, bool), paths (exclude-paths, list), checks    *)
(* (exclude-checks, list).  Abstract inputs:                               *)
(*   env.scan   in {"unset","empty","true","false","garbage"}  (spelling   *)
(*              classes of GOGREEMENT_SCAN_TESTS)                          *)
(*   argv.scan  in {"absent","true","false"}   (what package flag accepts) *)
(*   env/argv.paths, .checks in {"absent"} \cup SUBSET tokens  (the set of *)
(*              normalised items; blanks, empty items and letter case are  *)
(*              chosen by the concretisation)                              *)
(*                                                                         *)
(* L2 follows the process: ProcInit captures the environment into the flag *)
(* defaults (CreateFlagSet at package initialisation), ParseFlags lets the *)
(* command line override them, RunConfigOnce parses and caches the result  *)
(* in the first pass of the process, RunConfigAgain (every later pass)     *)
(* returns the cache.  L1: Eff = flag > environment > default.             *)
(*                                                                         *)
(* The observable effect is the set of visible *plants* of a probe module: *)
(* one violation per code in a regular file of two different packages     *)
(* (classes regular, regular2), one in a _test.go file, one under a        *)
(* directory containing "testdata", one under "zzgen".                     *)
(* C08 (exclude-checks removes exactly the matching codes) is the          *)
(* invariant ExcludeExact over the same model, with S ranging over subsets *)
(* of the token universe in the "excl*" modes.                             *)
(***************************************************************************)
EXTENDS Codes, Integers, TLC, Json

CONSTANTS Mode, Emit

VARIABLES env, argv, ph, flagDefault, val, cached, isCached, passes

vars == <<env, argv, ph, flagDefault, val, cached, isCached, passes>>

Absent == "absent"                        \* only for the boolean flag
No == [g |-> FALSE, s |-> {}]             \* a list option that is not given
L(S) == [g |-> TRUE, s |-> S]             \* a list option given with the item set S
PathTokens == {"testdata", "zzgen", "zzgen/g", "nomatch"}   \* zzgen/g: an entry that spans the boundary between directory and file name (zzgen/g.go)
JunkTokens == {"FOO", "IMM0", "IM", "ALLL"}
CheckTokens == {"ALL"} \cup Cats \cup AllCodes \cup JunkTokens

Default == [scan |-> FALSE, paths |-> {"testdata"}, checks |-> {}]

BoolOfEnv(v) == v = "true"                 \* "false", "garbage" and "" are all false
EnvVal(o) == CASE o = "scan" -> BoolOfEnv(env.scan) [] OTHER -> env[o].s
EnvSet(o) == IF o = "scan" THEN env.scan # "unset" ELSE env[o].g
FlagVal(o) == CASE o = "scan" -> (argv.scan = "true") [] OTHER -> argv[o].s
FlagGiven(o) == IF o = "scan" THEN argv.scan # Absent ELSE argv[o].g

(***************************************************************************)
(* L1                                                                      *)
(***************************************************************************)
Eff(o) == IF FlagGiven(o) THEN FlagVal(o) ELSE IF EnvSet(o) THEN EnvVal(o) ELSE Default[o]
EffCfg == [scan |-> Eff("scan"), paths |-> Eff("paths"), checks |-> Eff("checks")]

(***************************************************************************)
(* Input spaces                                                            *)
(***************************************************************************)
ScanEnv == {"unset", "empty", "true", "false", "garbage"}
ScanArg == {Absent, "true", "false"}
PathVals == {No} \cup {L(S) : S \in {{}, {"testdata"}, {"zzgen"}, {"testdata", "zzgen"}, {"nomatch"}, {"zzgen/g"}}}
CheckVals == {No} \cup {L(S) : S \in {{}, {"IMM01"}, {"CTOR"}, {"ALL"}, {"FOO"}, {"IMM01", "TONL"}}}
DefEnv == [scan |-> "unset", paths |-> No, checks |-> No]
DefArg == [scan |-> Absent, paths |-> No, checks |-> No]

SmallUniverse == {"ALL", "IMM", "CTOR", "IMM01", "IMM02", "CTOR01", "CTOR03", "FOO"}

InitInput ==
  \/ /\ Mode = "grid1"      \* the full grid of each option, the other two at their defaults
     /\ \/ \E e \in ScanEnv, a \in ScanArg : env = [DefEnv EXCEPT !.scan = e] /\ argv = [DefArg EXCEPT !.scan = a]
        \/ \E e \in PathVals, a \in PathVals : env = [DefEnv EXCEPT !.paths = e] /\ argv = [DefArg EXCEPT !.paths = a]
        \/ \E e \in CheckVals, a \in CheckVals : env = [DefEnv EXCEPT !.checks = e] /\ argv = [DefArg EXCEPT !.checks = a]
  \/ /\ Mode = "grid"       \* the full product
     /\ \E e1 \in ScanEnv, a1 \in ScanArg, e2 \in PathVals, a2 \in PathVals, e3 \in CheckVals, a3 \in CheckVals :
          /\ env = [scan |-> e1, paths |-> e2, checks |-> e3]
          /\ argv = [scan |-> a1, paths |-> a2, checks |-> a3]
  \/ /\ Mode = "excl_small" \* C08: every subset of a reduced universe, by flag or by environment
     /\ \E S \in SUBSET SmallUniverse, byflag \in BOOLEAN :
          /\ env = [DefEnv EXCEPT !.checks = IF byflag THEN No ELSE L(S)]
          /\ argv = [DefArg EXCEPT !.checks = IF byflag THEN L(S) ELSE No]
  \/ /\ Mode = "excl_cat"   \* C08: every subset of the codes of one category (in particular all of its codes but one)
     /\ \E k \in Cats, byflag \in BOOLEAN : \E S \in SUBSET CodesOf(k) :
          /\ env = [DefEnv EXCEPT !.checks = IF byflag THEN No ELSE L(S)]
          /\ argv = [DefArg EXCEPT !.checks = IF byflag THEN L(S) ELSE No]
  \/ /\ Mode = "excl_pairs" \* C08: every singleton and pair of the full universe; flag wins over environment
     /\ \E t1 \in CheckTokens, t2 \in CheckTokens, ch \in {"flag", "env", "both"} :
          /\ env = [DefEnv EXCEPT !.checks = IF ch = "flag" THEN No ELSE IF ch = "both" THEN L({"ALL"}) ELSE L({t1, t2})]
          /\ argv = [DefArg EXCEPT !.checks = IF ch = "env" THEN No ELSE L({t1, t2})]

Init == /\ InitInput
        /\ ph = "start"
        /\ flagDefault = Default /\ val = Default /\ cached = Default /\ isCached = FALSE /\ passes = 0

\* package initialisation: CreateFlagSet registers the flags with defaults taken from the environment
ProcInit ==
  /\ ph = "start"
  /\ flagDefault' = [scan |-> IF env.scan \in {"unset", "empty"} THEN FALSE ELSE BoolOfEnv(env.scan),
                     paths |-> IF ~env.paths.g THEN {"testdata"} ELSE env.paths.s,
                     checks |-> IF ~env.checks.g THEN {} ELSE env.checks.s]
  /\ ph' = "flags"
  /\ UNCHANGED <<env, argv, val, cached, isCached, passes>>

\* the driver parses the command line into the flag set
ParseFlags ==
  /\ ph = "flags"
  /\ val' = [o \in {"scan", "paths", "checks"} |-> IF FlagGiven(o) THEN FlagVal(o) ELSE flagDefault[o]]
  /\ ph' = "run"
  /\ UNCHANGED <<env, argv, flagDefault, cached, isCached, passes>>

\* first `config` pass of the process: parse and cache
RunConfigOnce ==
  /\ ph = "run" /\ ~isCached
  /\ cached' = val /\ isCached' = TRUE
  /\ passes' = passes + 1
  /\ UNCHANGED <<env, argv, ph, flagDefault, val>>

\* every later pass returns the cache
RunConfigAgain ==
  /\ ph = "run" /\ isCached /\ passes < 3
  /\ passes' = passes + 1
  /\ UNCHANGED <<env, argv, ph, flagDefault, val, cached, isCached>>

Finish == ph = "run" /\ passes = 3 /\ ph' = "done" /\ UNCHANGED <<env, argv, flagDefault, val, cached, isCached, passes>>
Finished == ph = "done" /\ UNCHANGED vars

Next == ProcInit \/ ParseFlags \/ RunConfigOnce \/ RunConfigAgain \/ Finish \/ Finished

Spec == Init /\ [][Next]_vars /\ WF_vars(ProcInit \/ ParseFlags \/ RunConfigOnce \/ RunConfigAgain \/ Finish)

Done == ph = "done"
Termination == <>Done

(***************************************************************************)
(* Effect on the probe module                                              *)
(***************************************************************************)
Plants == {[cls |-> "regular", code |-> c] : c \in AllCodes} \cup {[cls |-> "regular2", code |-> c] : c \in AllCodes}
          \cup {[cls |-> "test", code |-> "IMM02"], [cls |-> "tdpath", code |-> "CTOR01"], [cls |-> "genpath", code |-> "TONL02"]}
          \* a _test.go file inside the testdata directory: needs scan-tests *and* a list without testdata
          \cup {[cls |-> "tdtest", code |-> "IMM03"]}
          \* uses nested inside other reported uses: d.TT{X: d.TF(1)}, d.PT{X: s.PM(2)}, d.T{X: len(new(d.T).Xs)} ...
          \cup {[cls |-> "nested", code |-> c] : c \in {"TONL01", "TONL02", "TONL03", "PKGO01", "PKGO02", "PKGO03", "CTOR01", "CTOR02"}}
          \* violations that the source itself suppresses with one `@ignore IMM01, CTOR01` / `@ignore TONL, PKGO02` directive each:
          \* they are invisible under every configuration (excluding one of the codes project-wide does not revive the other)
          \cup {[cls |-> "ignored", code |-> c] : c \in {"IMM01", "CTOR01", "TONL02", "PKGO02"}}
          \* uses of @testonly items inside a function that is itself @testonly (non-test file): exempt under every configuration
          \cup {[cls |-> "tctx", code |-> c] : c \in {"TONL01", "TONL02", "TONL03"}}
          \* two findings at one source position each: d.MkTS().TM(1), d.MkS().PM(2), a type with two failing @implements lines.
          \* Excluding one code of a pair leaves the other one exactly as it was.
          \cup {[cls |-> "chain", code |-> c] : c \in {"TONL02", "TONL03", "PKGO02", "PKGO03", "IMPL01", "IMPL03"}}

Skip(cls, c) == \/ cls \in {"ignored", "tctx"}
                \/ cls = "test" /\ ~c.scan
                \/ cls = "tdpath" /\ "testdata" \in c.paths
                \/ cls = "tdtest" /\ (~c.scan \/ "testdata" \in c.paths)
                \/ cls = "genpath" /\ ("zzgen" \in c.paths \/ "zzgen/g" \in c.paths)
Excluded(code, c) == \E t \in c.checks : Matches(t, code)
Visible(c) == {p \in Plants : ~Skip(p.cls, c) /\ ~Excluded(p.code, c)}

\* C18: the cached configuration is the flag > env > default resolution
Resolved == Done => cached = EffCfg
\* the configuration of a process never changes after the first pass
CachedOnce == [][isCached => (cached' = cached /\ isCached')]_vars
\* C08: exactly the matching codes disappear, relative to the same configuration without exclusions
ExcludeExact == Done =>
   Visible(cached) = {p \in Visible([cached EXCEPT !.checks = {}]) : ~\E t \in cached.checks : Matches(t, p.code)}
AllExcludesAll == (Done /\ "ALL" \in cached.checks) => Visible(cached) = {}
JunkExcludesNothing == (Done /\ cached.checks \subseteq JunkTokens) => Visible(cached) = Visible([cached EXCEPT !.checks = {}])

SetOrAbsent(v) == [given |-> v.g, items |-> v.s]
EmitInv == (Emit /\ Done) =>
   PrintT("@E " \o ToJson([env |-> [scan |-> env.scan, paths |-> SetOrAbsent(env.paths), checks |-> SetOrAbsent(env.checks)],
                            argv |-> [scan |-> argv.scan, paths |-> SetOrAbsent(argv.paths), checks |-> SetOrAbsent(argv.checks)],
                            eff |-> cached,
                            visible |-> {<<p.cls, p.code>> : p \in Visible(cached)}]))
=============================================================================
