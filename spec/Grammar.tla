------------------------------- MODULE Grammar -------------------------------
(***************************************************************************)
(* The annotation grammar (src/annotations/annotation.go: the six regular  *)
(* expressions and parse functions; src/ignore/ignore.go: ignoreRegex).    *)
(*                                                                         *)
(* A comment line is  opener pre keyword rest  where                       *)
(*   opener  "//" or "/*"                                                  *)
(*   pre     what stands between the opener and the keyword: nothing,      *)
(*           blanks, or other text                                         *)
(*   keyword one of the seven lowercase keywords, or a near-keyword        *)
(*   rest    a sequence of character classes:                              *)
(*           SP blank/tab   L letter   U underscore   D digit   SL '/'     *)
(*           DA '-'   DO '.'   CO ','   AM '&'   X other ASCII punctuation *)
(*           N non-ASCII letter   K2 the text of another keyword           *)
(*                                                                         *)
(* L1 (declarative, the documented grammar): the line is annotation K iff  *)
(* opener = "//", pre is blank, the keyword is followed by end or a blank, *)
(* and - where K takes an argument - the longest well-formed argument that *)
(* is followed by end or a blank exists (non-empty where required).  Text  *)
(* after it is ignored.  Cases the documentation leaves open are marked    *)
(* "unspec" (trailing comma, digit-leading interface / package names).     *)
(* L2 (operational): a left-to-right scanner with one state per position   *)
(* class, remembering the last point at which a complete argument was      *)
(* followed by a blank.  TLC checks L2 = L1 on all lines up to MaxLen.     *)
(***************************************************************************)
EXTENDS Integers, Sequences, FiniteSets, TLC, Json

CONSTANTS MaxLen, Emit, Deviations,
          Mode        \* "lines": all lines up to MaxLen as doc comment of a fitting declaration; "sites": canonical lines at every placement

VARIABLES line,       \* [opener, pre, kw, rest]
          site,       \* where the comment stands
          i, st, es, elems, best, amp, pkgr, trailc, res

vars == <<line, site, i, st, es, elems, best, amp, pkgr, trailc, res>>

(* placements of a comment; Effective(site, kw) says where annotation kw takes effect *)
Sites == {"typeDoc", "groupDoc", "specDoc", "funcDoc", "methodDoc", "fieldDocImm", "fieldDocPlain", "embeddedDocImm", "fieldLineImm",
          "trailingType", "localType", "varDoc", "constDoc", "ifaceMethodDoc", "detachedDoc", "blockDoc", "blockSlashLine", "insideBody",
          "groupSecondSpec",     \* the comment documents the *previous* spec of the same type (...) group
          "afterDirectiveDoc",   \* the comment trails the previous declaration; the item's own doc is a //go: directive only
          "packageDoc",          \* a line of the package documentation (the comment group in front of the package clause)
          "fieldDocImmMulti",    \* doc of a field declaration with two names (`F, G int`) of an @immutable struct: applies to both names
          "typeDocCaseTwins"}    \* typeDoc with a list of two names that differ only in letter case (`@constructor a, A`): both are kept
Effective(s, kw) ==
  CASE kw \in {"implements", "constructor", "immutable"} -> s \in {"typeDoc", "groupDoc", "specDoc", "typeDocCaseTwins"}
    [] kw \in {"testonly", "packageonly"} -> s \in {"typeDoc", "groupDoc", "specDoc", "funcDoc", "methodDoc", "typeDocCaseTwins"}
    [] kw = "mutable" -> s \in {"fieldDocImm", "fieldDocImmMulti"}
    [] OTHER -> FALSE
Canonical(kw) == CASE kw = "implements" -> <<"SP", "L">> [] kw = "constructor" -> <<"SP", "L">> [] kw = "packageonly" -> <<"SP", "L">> [] OTHER -> <<>>
\* "Lc": the previous letter again in the other letter case (only in the explicit lines of the sites mode)
CaseTwins(kw) == IF kw \in {"constructor", "packageonly"} THEN <<"SP", "L", "CO", "SP", "Lc">> ELSE Canonical(kw)

Classes == {"SP", "L", "U", "D", "SL", "DA", "DO", "CO", "AM", "X", "N", "K2"}
Keywords == {"implements", "constructor", "immutable", "testonly", "mutable", "packageonly", "ignore"}
NearKeywords == {"Immutable", "at_space_immutable", "no_at_immutable"}
Pres == {"", "sp", "tab", "spsp", "text", "slashes", "slashes0", "tabslashes"}
\* text: words before the keyword; slashes / slashes0 / tabslashes: a second comment marker (` // @kw`, `//@kw`, `<TAB>// @kw` after the
\* opener: a switched-off annotation or a godoc code block) - both are not blank
BlankPre(p) == p \in {"", "sp", "tab", "spsp"}
Simple == {"immutable", "testonly", "mutable"}
Lists == {"constructor", "packageonly", "ignore"}

IsW(c) == c \in {"L", "Lc", "U", "D"}
ElemCh(kw, c) == CASE kw = "constructor" -> c \in {"L", "Lc", "U", "D"}
                   [] kw = "packageonly" -> c \in {"L", "Lc", "U", "D", "SL", "DA", "DO"}
                   [] kw = "ignore" -> c \in {"L", "Lc", "D"}
                   [] OTHER -> FALSE
ElemStart(kw, c) == IF kw = "constructor" THEN c \in {"L", "Lc", "U"} ELSE ElemCh(kw, c)

None == [rec |-> "no", ptr |-> FALSE, pkg |-> <<>>, names |-> <<>>]
Yes(ptr, pkg, names) == [rec |-> "yes", ptr |-> ptr, pkg |-> pkg, names |-> names]

(***************************************************************************)
(* L1                                                                      *)
(***************************************************************************)
EndOK(r, b) == b = Len(r) \/ r[b + 1] = "SP"
FirstNonBlank(r) == IF \E k \in 1..Len(r) : r[k] # "SP" THEN CHOOSE k \in 1..Len(r) : r[k] # "SP" /\ \A j \in 1..(k - 1) : r[j] = "SP" ELSE 0

Elem(kw, r, a, b) == a <= b /\ ElemStart(kw, r[a]) /\ \A k \in a..b : ElemCh(kw, r[k])
Sep(r, a, b) == a <= b /\ Cardinality({k \in a..b : r[k] = "CO"}) = 1 /\ \A k \in a..b : r[k] \in {"SP", "CO"}
RECURSIVE ListAt(_, _, _, _)
ListAt(kw, r, a, b) == \/ Elem(kw, r, a, b)
                       \/ \E m \in a..b, m2 \in a..b : m < m2 /\ Elem(kw, r, a, m) /\ Sep(r, m + 1, m2 - 1) /\ ListAt(kw, r, m2, b)
\* the elements of a well-formed list r[a..b]: maximal runs of element characters
Runs(kw, r, a, b) == {<<x, y>> \in (a..b) \X (a..b) : /\ x <= y /\ \A k \in x..y : ElemCh(kw, r[k])
                                                       /\ (x = a \/ ~ElemCh(kw, r[x - 1])) /\ (y = b \/ ~ElemCh(kw, r[y + 1]))}
RECURSIVE SortRuns(_)
SortRuns(S) == IF S = {} THEN <<>> ELSE LET m == CHOOSE x \in S : \A y \in S : x[1] <= y[1] IN <<m>> \o SortRuns(S \ {m})
TrailingComma(r, b) == \E c \in (b + 1)..Len(r) : r[c] = "CO" /\ (\A k \in (b + 1)..(c - 1) : r[k] = "SP") /\ EndOK(r, c)

L1List(kw, r) ==
  IF r = <<>> THEN (IF kw = "packageonly" THEN Yes(FALSE, <<>>, <<>>) ELSE None)
  ELSE IF r[1] # "SP" THEN None
  ELSE LET a == FirstNonBlank(r) IN
       IF a = 0 THEN (IF kw = "packageonly" THEN Yes(FALSE, <<>>, <<>>) ELSE None)
       ELSE LET cands == {b \in a..Len(r) : ListAt(kw, r, a, b) /\ EndOK(r, b)}
                tcs == {b \in a..Len(r) : ListAt(kw, r, a, b) /\ TrailingComma(r, b)}
            IN IF tcs # {} /\ (cands = {} \/ \E t \in tcs : \A b \in cands : t >= b)
                 THEN [None EXCEPT !.rec = "unspec"]                       \* a list with a trailing comma: not documented
               ELSE IF cands = {} THEN (IF kw = "packageonly" THEN Yes(FALSE, <<>>, <<>>) ELSE None)
               ELSE LET b == CHOOSE x \in cands : \A y \in cands : x >= y
                    IN Yes(FALSE, <<>>, SortRuns(Runs(kw, r, a, b)))

L1Impl(r) ==
  IF r = <<>> \/ r[1] # "SP" THEN None
  ELSE LET a0 == FirstNonBlank(r) IN
       IF a0 = 0 THEN None
       ELSE LET ptr == r[a0] = "AM"
                a == IF ptr THEN a0 + 1 ELSE a0
                \* name only: r[a..b] all word characters, followed by end / blank
                plain == {b \in a..Len(r) : (\A k \in a..b : IsW(r[k])) /\ EndOK(r, b)}
                \* pkg.name
                qual == {<<d, b>> \in (a..Len(r)) \X (a..Len(r)) : /\ a < d /\ d < b /\ r[d] = "DO" /\ (\A k \in a..(d - 1) : IsW(r[k]))
                                                                   /\ (\A k \in (d + 1)..b : IsW(r[k])) /\ EndOK(r, b)}
            IN IF a > Len(r) THEN None
               ELSE IF qual # {} THEN LET q == CHOOSE x \in qual : TRUE IN
                                      IF r[a] = "D" \/ r[q[1] + 1] = "D" THEN [None EXCEPT !.rec = "unspec"]
                                      ELSE Yes(ptr, <<a, q[1] - 1>>, <<<<q[1] + 1, q[2]>>>>)
               ELSE IF plain # {} THEN LET b == CHOOSE x \in plain : TRUE IN
                                       IF r[a] = "D" THEN [None EXCEPT !.rec = "unspec"] ELSE Yes(ptr, <<>>, <<<<a, b>>>>)
               ELSE None

L1(ln) ==
  IF ln.opener # "//" \/ ~BlankPre(ln.pre) \/ ln.kw \notin Keywords THEN None
  ELSE IF ln.kw \in Simple THEN (IF ln.rest = <<>> \/ ln.rest[1] = "SP" THEN Yes(FALSE, <<>>, <<>>) ELSE None)
  ELSE IF ln.kw = "implements" THEN L1Impl(ln.rest)
  ELSE L1List(ln.kw, ln.rest)

(***************************************************************************)
(* L2: the scanner                                                         *)
(***************************************************************************)
RestSeqs(n) == UNION {[1..k -> Classes] : k \in 0..n}

InitLine ==
  \/ /\ Mode = "lines"
     /\ line \in [opener : {"//", "/*"}, pre : Pres, kw : Keywords \cup NearKeywords, rest : RestSeqs(MaxLen)]
     /\ (line.opener = "/*" => line.pre = "sp")
     \* a near-keyword line may go on to mention the real keyword (`// @Immutable ... @immutable`): still not an annotation
     /\ (line.kw \in NearKeywords => Len(line.rest) <= 1 \/ line.rest = <<"SP", "K2">>)
     /\ site = "doc"
  \/ /\ Mode = "sites"
     /\ \E kw \in Keywords \ {"ignore"}, s \in Sites :
          line = [opener |-> "//", pre |-> "sp", kw |-> kw, rest |-> IF s = "typeDocCaseTwins" THEN CaseTwins(kw) ELSE Canonical(kw)] /\ site = s

Init == /\ InitLine
        /\ i = 1 /\ st = "begin" /\ es = 0 /\ elems = <<>> /\ best = <<>> /\ amp = FALSE /\ pkgr = <<>> /\ trailc = FALSE
        /\ res = None

R == line.rest
N == Len(R)
AtEnd == i > N
C == R[i]
Halt(v) == st' = "done" /\ res' = v /\ UNCHANGED <<line, site, i, es, elems, best, amp, pkgr, trailc>>
Adv(s) == st' = s /\ i' = i + 1

ListResult(b, tc) == IF tc THEN [None EXCEPT !.rec = "unspec"]
                     ELSE IF b = <<>> THEN (IF line.kw = "packageonly" THEN Yes(FALSE, <<>>, <<>>) ELSE None)
                     ELSE Yes(FALSE, <<>>, b)

Begin ==
  /\ st = "begin"
  /\ IF line.opener # "//" \/ ~BlankPre(line.pre) \/ line.kw \notin Keywords THEN Halt(None)
     ELSE IF AtEnd THEN Halt(IF line.kw \in Simple \/ line.kw = "packageonly" THEN Yes(FALSE, <<>>, <<>>) ELSE None)
     ELSE IF C # "SP" THEN Halt(None)                                  \* the keyword must be followed by end or whitespace
     ELSE IF line.kw \in Simple THEN Halt(Yes(FALSE, <<>>, <<>>))
     ELSE Adv("blanks") /\ UNCHANGED <<line, site, es, elems, best, amp, pkgr, trailc, res>>

Blanks ==
  /\ st = "blanks"
  /\ IF AtEnd THEN Halt(IF line.kw = "packageonly" THEN Yes(FALSE, <<>>, <<>>) ELSE None)
     ELSE IF C = "SP" THEN Adv("blanks") /\ UNCHANGED <<line, site, es, elems, best, amp, pkgr, trailc, res>>
     ELSE IF line.kw = "implements"
       THEN IF C = "AM" THEN Adv("iname0") /\ amp' = TRUE /\ UNCHANGED <<line, site, es, elems, best, pkgr, trailc, res>>
            ELSE IF IsW(C) THEN Adv("iname") /\ es' = i /\ UNCHANGED <<line, site, elems, best, amp, pkgr, trailc, res>>
            ELSE Halt(None)
     ELSE IF ElemStart(line.kw, C) THEN Adv("elem") /\ es' = i /\ UNCHANGED <<line, site, elems, best, amp, pkgr, trailc, res>>
     ELSE Halt(ListResult(<<>>, FALSE))

\* ---- implements
IName0 == /\ st = "iname0"
          /\ IF ~AtEnd /\ IsW(C) THEN Adv("iname") /\ es' = i /\ UNCHANGED <<line, site, elems, best, amp, pkgr, trailc, res>> ELSE Halt(None)
Unspec(v) == IF R[es] = "D" \/ (pkgr # <<>> /\ R[pkgr[1]] = "D") THEN [None EXCEPT !.rec = "unspec"] ELSE v
IName ==
  /\ st = "iname"
  /\ IF AtEnd \/ C = "SP" THEN Halt(Unspec(Yes(amp, pkgr, <<<<es, i - 1>>>>)))
     ELSE IF IsW(C) THEN Adv("iname") /\ UNCHANGED <<line, site, es, elems, best, amp, pkgr, trailc, res>>
     ELSE IF C = "DO" /\ pkgr = <<>> THEN Adv("iname0") /\ pkgr' = <<es, i - 1>> /\ UNCHANGED <<line, site, es, elems, best, amp, trailc, res>>
     ELSE Halt(None)

\* ---- comma lists
ElemS ==
  /\ st = "elem"
  /\ IF AtEnd THEN Halt(ListResult(Append(elems, <<es, i - 1>>), FALSE))
     ELSE IF ElemCh(line.kw, C) THEN Adv("elem") /\ UNCHANGED <<line, site, es, elems, best, amp, pkgr, trailc, res>>
     ELSE IF C = "SP" THEN /\ Adv("afterElem") /\ elems' = Append(elems, <<es, i - 1>>) /\ best' = Append(elems, <<es, i - 1>>) /\ trailc' = FALSE
                           /\ UNCHANGED <<line, site, es, amp, pkgr, res>>
     ELSE IF C = "CO" THEN Adv("afterComma") /\ elems' = Append(elems, <<es, i - 1>>) /\ UNCHANGED <<line, site, es, best, amp, pkgr, trailc, res>>
     ELSE Halt(ListResult(best, trailc))                               \* a character that cannot continue the element: the list so far is void

AfterElem ==
  /\ st = "afterElem"
  /\ IF AtEnd THEN Halt(ListResult(best, trailc))
     ELSE IF C = "SP" THEN Adv("afterElem") /\ UNCHANGED <<line, site, es, elems, best, amp, pkgr, trailc, res>>
     ELSE IF C = "CO" THEN Adv("afterComma") /\ UNCHANGED <<line, site, es, elems, best, amp, pkgr, trailc, res>>
     ELSE Halt(ListResult(best, trailc))

AfterComma ==
  /\ st = "afterComma"
  /\ IF AtEnd THEN Halt(ListResult(best, TRUE))                        \* "a," / "a ,": trailing comma
     ELSE IF C = "SP" THEN Adv("afterComma") /\ trailc' = TRUE /\ UNCHANGED <<line, site, es, elems, best, amp, pkgr, res>>
     ELSE IF ElemStart(line.kw, C) THEN Adv("elem") /\ es' = i /\ UNCHANGED <<line, site, elems, best, amp, pkgr, trailc, res>>
     ELSE Halt(ListResult(best, trailc))

Finished == st = "done" /\ UNCHANGED vars

Next == Begin \/ Blanks \/ IName0 \/ IName \/ ElemS \/ AfterElem \/ AfterComma \/ Finished
Spec == Init /\ [][Next]_vars /\ WF_vars(Begin \/ Blanks \/ IName0 \/ IName \/ ElemS \/ AfterElem \/ AfterComma)

Done == st = "done"
Termination == <>Done

Same(x, y) == x.rec = y.rec /\ (x.rec = "yes" => x = y)
Exact == Done => Same(res, L1(line))
\* text after the argument, separated by a blank, is ignored
TailIgnored == Done => \A c \in Classes \ {"CO"} :
                  (res.rec = "yes" /\ Len(R) < MaxLen /\ (R = <<>> \/ R[Len(R)] # "CO")) =>
                     LET l2 == [line EXCEPT !.rest = R \o <<"SP", c>>] IN
                     (L1(l2).rec = "yes" => L1(l2).ptr = res.ptr /\ Len(L1(l2).names) >= Len(res.names))

\* placement: a recognised line takes effect only at the sites of its keyword
TakesEffect == res.rec = "yes" /\ (site = "doc" \/ Effective(site, line.kw))
SitesOK == (Done /\ Mode = "sites") => res.rec = "yes"

EmitInv == (Emit /\ Done) => PrintT("@E " \o ToJson([line |-> line, site |-> site, res |-> L1(line), effect |-> TakesEffect]))
=============================================================================
