------------------------------ MODULE IgnoreSet ------------------------------
(***************************************************************************)
(* The suppression store of gogreement (src/util/ignoreset.go).            *)
(*                                                                         *)
(* L2 (operational): exactly the state of util.IgnoreSet - markers in      *)
(* insertion order, the per-token index, minPos/maxPos with 0 meaning      *)
(* "unset", the module-wide (global) token list and the Initialized flag - *)
(* with one action per mutating call (Add, AddModuleIgnore) and Contains   *)
(* as the operator Impl (module check, fast reject, index walk).           *)
(*                                                                         *)
(* L1 (property C16): Ref(c,p) - a diagnostic with code c at position p is *)
(* dropped iff some token of {ALL, category(c), c} is global or has a      *)
(* range with s <= p <= e.                                                 *)
(*                                                                         *)
(* TLC checks Impl = Ref for every query in every reachable state; the     *)
(* states are emitted (operation ids + answer bits) and replayed into the  *)
(* real data structure by harness/cmd/vh (sub-command ignoreset-replay).   *)
(***************************************************************************)
EXTENDS Codes, Integers, TLC

CONSTANTS TokSeq,     \* suppression-token alphabet as a sequence (its order defines operation ids)
          QCodeSeq,   \* diagnostic codes that are queried, as a sequence (order of the answer bits)
          MaxPos,     \* scoped ranges lie inside 1..MaxPos ; queries range over 0..MaxPos+1
          MaxOps,     \* bound on the number of add-operations in a history
          Canonical,  \* TRUE: operations are added in non-decreasing id order (one state per multiset)
          EmitFile,   \* "" = no emission; otherwise every reached state is printed as one "@E ids;bits" line on TLC's output
          Part, NParts \* partition of the state space by the first operation (id % NParts = Part); NParts = 1: all

VARIABLES markers, index, minPos, maxPos, mod, inited, hist

vars == <<markers, index, minPos, maxPos, mod, inited, hist>>

Tokens == {TokSeq[i] : i \in 1..Len(TokSeq)}
QCodes == {QCodeSeq[i] : i \in 1..Len(QCodeSeq)}
InSeq(x, s) == \E i \in 1..Len(s) : s[i] = x
Count(x, s) == Cardinality({i \in 1..Len(s) : s[i] = x})

(***************************************************************************)
(* Operations.  An operation is [g |-> TRUE, codes] (AddModuleIgnore) or   *)
(* [g |-> FALSE, codes, s, e] (Add of a marker).  The exhaustive configs   *)
(* use single-token operations; the trace spec uses arbitrary code lists.  *)
(* id of a single-token operation:                                         *)
(*   (tokenIndex-1) * (MaxPos*MaxPos+1) + (0 if global else (s-1)*MaxPos+e)*)
(***************************************************************************)
Stride == MaxPos * MaxPos + 1
TokIdx(t) == CHOOSE i \in 1..Len(TokSeq) : TokSeq[i] = t
OpId(op) == (TokIdx(op.codes[1]) - 1) * Stride + (IF op.g THEN 0 ELSE (op.s - 1) * MaxPos + op.e)

Ops == {[g |-> TRUE, codes |-> <<t>>, s |-> 0, e |-> 0] : t \in Tokens}
       \cup {[g |-> FALSE, codes |-> <<t>>, s |-> s, e |-> e] : t \in Tokens, s \in 1..MaxPos, e \in 1..MaxPos}
ForwardOps == {op \in Ops : op.g \/ op.s <= op.e}

\* constant tables (TLC evaluates a constant definition once and caches the value)
OpIdTab == [op \in Ops |-> OpId(op)]
HierTab == [c \in QCodes |-> Hier(c)]
HierSetTab == [c \in QCodes |-> HierSet(c)]
H(c) == IF c \in QCodes THEN HierTab[c] ELSE Hier(c)
HS(c) == IF c \in QCodes THEN HierSetTab[c] ELSE HierSet(c)

Init == /\ markers = <<>>
        /\ index = [t \in Tokens |-> <<>>]
        /\ minPos = 0 /\ maxPos = 0
        /\ mod = <<>>
        /\ inited = FALSE
        /\ hist = <<>>

\* util.IgnoreSet.Add
Add(codes, s, e) ==
  /\ markers' = Append(markers, [codes |-> codes, s |-> s, e |-> e])
  /\ index' = [t \in DOMAIN index |->
                 index[t] \o [k \in 1..Count(t, codes) |-> Len(markers) + 1]]
  /\ minPos' = IF minPos = 0 \/ s < minPos THEN s ELSE minPos
  /\ maxPos' = IF maxPos = 0 \/ e > maxPos THEN e ELSE maxPos
  /\ inited' = TRUE
  /\ UNCHANGED mod

\* util.IgnoreSet.AddModuleIgnore
AddModule(codes) ==
  /\ mod' = mod \o codes
  /\ inited' = TRUE
  /\ UNCHANGED <<markers, index, minPos, maxPos>>

Apply(op) == IF op.g THEN AddModule(op.codes) ELSE Add(op.codes, op.s, op.e)

\* util.IgnoreSet.Contains as implemented: flag, global list, fast reject, index walk
Impl(c, p) ==
  IF ~inited THEN FALSE
  ELSE IF Len(mod) # 0 /\ \E i \in 1..Len(H(c)) : InSeq(H(c)[i], mod) THEN TRUE
  ELSE IF minPos = 0 \/ p < minPos \/ p > maxPos THEN FALSE
  ELSE \E i \in 1..Len(H(c)) :
         LET t == H(c)[i] IN
           /\ t \in DOMAIN index
           /\ \E k \in 1..Len(index[t]) :
                LET m == markers[index[t][k]] IN p >= m.s /\ p <= m.e

\* L1: the property
Ref(c, p) ==
  \E t \in HS(c) :
     \/ InSeq(t, mod)
     \/ \E i \in 1..Len(markers) : InSeq(t, markers[i].codes) /\ markers[i].s <= p /\ p <= markers[i].e

QPos == 0..(MaxPos + 1)

Agree == \A c \in QCodes, p \in QPos : Impl(c, p) = Ref(c, p)

\* structural invariants of the representation
IndexOK == \A t \in DOMAIN index :
              /\ \A k \in 1..Len(index[t]) : index[t][k] \in 1..Len(markers) /\ InSeq(t, markers[index[t][k]].codes)
              /\ \A i \in 1..Len(markers) : InSeq(t, markers[i].codes) => InSeq(i, index[t])
MinMaxOK == IF markers = <<>> THEN minPos = 0 /\ maxPos = 0
            ELSE /\ \A i \in 1..Len(markers) : minPos <= markers[i].s /\ markers[i].e <= maxPos
                 /\ \E i \in 1..Len(markers) : minPos = markers[i].s
                 /\ \E i \in 1..Len(markers) : maxPos = markers[i].e
UninitNever == ~inited => \A c \in QCodes, p \in QPos : ~Impl(c, p)
\* tokens of other codes/categories never suppress (non-vacuity companion of Agree)
OtherNever == \A c \in QCodes, p \in QPos :
                 Impl(c, p) => \E t \in HS(c) : InSeq(t, mod) \/ \E i \in 1..Len(markers) : InSeq(t, markers[i].codes)

Next == /\ Len(hist) < MaxOps
        /\ \E op \in ForwardOps :
             /\ IF Canonical /\ hist # <<>> THEN OpIdTab[hist[Len(hist)]] <= OpIdTab[op] ELSE TRUE
             /\ IF hist = <<>> /\ NParts > 1 THEN OpIdTab[op] % NParts = Part ELSE TRUE
             /\ Apply(op)
             /\ hist' = Append(hist, op)

Spec == Init /\ [][Next]_vars

\* action properties: the store only grows; the flag never falls
Monotone == [][/\ Len(markers') >= Len(markers) /\ Len(mod') >= Len(mod)
               /\ (inited => inited')
               /\ \A i \in 1..Len(markers) : markers'[i] = markers[i]]_vars

(***************************************************************************)
(* Emission for the replay: "ids;bits" per state.                          *)
(***************************************************************************)
Bits == [k \in 1..(Len(QCodeSeq) * (MaxPos + 2)) |->
           LET c == QCodeSeq[((k - 1) \div (MaxPos + 2)) + 1]
               p == (k - 1) % (MaxPos + 2)
           IN IF Ref(c, p) THEN 1 ELSE 0]
Ids == [k \in 1..Len(hist) |-> OpIdTab[hist[k]]]
EmitInv == (EmitFile # "") => PrintT("@E " \o ToString(Ids) \o ";" \o ToString(Bits))
=============================================================================
