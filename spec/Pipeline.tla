------------------------------ MODULE Pipeline ------------------------------
(***************************************************************************)
(* A run of gogreement as a schedule of actions (analyzer, package)        *)
(* executed by a go/analysis driver over an import DAG (src/analyzer/      *)
(* analyzer.go; drivers: multichecker/checker in one process, unitchecker  *)
(* under `go vet -vettool` with one process per package and facts on disk).*)
(*                                                                         *)
(* Analyzers: config, annot (annotationreader), ign (ignorereader) and the *)
(* five checkers.  Horizontal edges: annot, ign require config; a checker  *)
(* requires config, annot, ign of the same package.  Vertical edges: a     *)
(* fact-exporting analyzer (annot and the checkers) on p requires itself   *)
(* on every direct import of p.  Shared state: the per-process             *)
(* configuration cache, per-package results, per-(analyzer, package)       *)
(* facts.                                                                  *)
(*                                                                         *)
(* Abstract program: Ann[p] = p declares annotated items; Uses[p] = the    *)
(* packages whose annotated items the code of p violates (possibly         *)
(* reached only through another package's API, i.e. not directly           *)
(* imported).  L1: Diags(c, p) = {q \in Uses[p] : Ann[q] /\ (q = p \/ q is *)
(* a direct import of p)} for named p - a function of p, its direct        *)
(* imports' annotations and nothing else (C06), in particular not of the   *)
(* schedule (C11), the driver or the run set.                              *)
(*                                                                         *)
(* Deviations: NoExportWithoutAnn (a checker returns before exporting its  *)
(* fact when the package has no annotations of its own), TransitiveFacts   *)
(* (facts of indirect dependencies are consulted), SharedReported (a       *)
(* process-wide cache shared by the passes of one analyzer).               *)
(***************************************************************************)
EXTENDS Integers, Sequences, FiniteSets, TLC, Json

CONSTANTS Mode, Deviations, Emit,
          Shape,       \* "chain" (w -> u -> d) | "diamond" (w -> u -> d and w -> d)
          Driver       \* "inproc" | "vet"

VARIABLES ann, uses, named,          \* the abstract input
          st,                        \* st[<<a, p>>] \in {"idle", "running", "done"}
          cfgCache,                  \* per process: "null" or the configuration token
          resAnn,                    \* result of annot on p ("null" before)
          facts,                     \* facts[<<a, p>>]: "null" or the exported annotation value
          diags,                     \* diags[<<c, p>>]: set of packages reported
          reads,                     \* history: facts read, as <<a, p, q>>
          hist                       \* history of Start / End events (schedule), output only

vars == <<ann, uses, named, st, cfgCache, resAnn, facts, diags, reads, hist>>

Pkgs == {"d", "u", "w"}
Imports(p) == CASE p = "d" -> {} [] p = "u" -> {"d"} [] p = "w" -> IF Shape = "diamond" THEN {"u", "d"} ELSE {"u"}
Checkers == {"impl", "imm", "ctor", "tonl", "pkgo"}
Analyzers == {"config", "annot", "ign"} \cup Checkers
FactAnalyzers == {"annot"} \cup Checkers
Requires(a) == CASE a = "config" -> {} [] a \in {"annot", "ign"} -> {"config"} [] OTHER -> {"config", "annot", "ign"}

\* transitive dependencies of a package
Deps(p) == CASE p = "d" -> {} [] p = "u" -> {"d"} [] p = "w" -> {"u", "d"}

\* the actions the driver creates: everything on named packages, and the fact analyzers (with what they
\* require) on their dependencies
Needed == {<<a, p>> : a \in Analyzers, p \in named}
          \cup {<<a, q>> : a \in Analyzers, q \in UNION {Deps(p) : p \in named}}
\* (config and ign on a dependency are needed because the fact-exporting checkers require them there)

Proc(p) == IF Driver = "vet" THEN p ELSE "main"
Procs == IF Driver = "vet" THEN Pkgs ELSE {"main"}

L1Diags(c, p) == IF c = "impl" THEN {} ELSE {q \in uses[p] : ann[q] /\ (q = p \/ q \in Imports(p))}

InitInput ==
  \/ /\ Mode = "scheds"      \* all schedules, fully annotated program, every run set
     /\ ann = [p \in Pkgs |-> TRUE]
     /\ uses = [p \in Pkgs |-> Pkgs]
     /\ named \in (SUBSET Pkgs) \ {{}}
  \/ /\ Mode = "progs"       \* all programs and run sets (the schedules still vary; bounded by the config's constraint)
     /\ ann \in [Pkgs -> BOOLEAN]
     /\ uses \in [Pkgs -> {{}, {"d"}, {"d", "u"}, Pkgs}]
     /\ named \in (SUBSET Pkgs) \ {{}}

Init == /\ InitInput
        /\ st = [k \in Analyzers \X Pkgs |-> "idle"]
        /\ cfgCache = [pr \in Procs |-> "null"]
        /\ resAnn = [p \in Pkgs |-> "null"]
        /\ facts = [k \in Analyzers \X Pkgs |-> "null"]
        /\ diags = [k \in Checkers \X Pkgs |-> {}]
        /\ reads = {}
        /\ hist = <<>>

AnnVal(p) == IF ann[p] THEN "A" ELSE "E"      \* the value of the annotation record of p (annotated / empty)

Ready(a, p) ==
  /\ <<a, p>> \in Needed /\ st[<<a, p>>] = "idle"
  /\ \A b \in Requires(a) : st[<<b, p>>] = "done"
  /\ a \in FactAnalyzers => \A q \in Imports(p) : st[<<a, q>>] = "done"

\* a fixed total order of the actions, used to pick one canonical (sequential) schedule in the "progs" mode
Rank(a, p) == (CASE p = "d" -> 0 [] p = "u" -> 10 [] p = "w" -> 20)
              + (CASE a = "config" -> 0 [] a = "annot" -> 1 [] a = "ign" -> 2 [] a = "impl" -> 3 [] a = "imm" -> 4
                   [] a = "ctor" -> 5 [] a = "tonl" -> 6 [] a = "pkgo" -> 7)

Start(a, p) ==
  /\ Ready(a, p)
  /\ Mode = "progs" => /\ \A k \in Analyzers \X Pkgs : st[k] # "running"
                       /\ \A b \in Analyzers, q \in Pkgs : Ready(b, q) => Rank(a, p) <= Rank(b, q)
  /\ st' = [st EXCEPT ![<<a, p>>] = "running"]
  /\ hist' = Append(hist, <<"S", a, p>>)
  /\ UNCHANGED <<ann, uses, named, cfgCache, resAnn, facts, diags, reads>>

\* which facts a checker consults
Consulted(p) == IF "TransitiveFacts" \in Deviations THEN Deps(p) ELSE Imports(p)

End(a, p) ==
  /\ st[<<a, p>>] = "running"
  /\ st' = [st EXCEPT ![<<a, p>>] = "done"]
  /\ hist' = Append(hist, <<"E", a, p>>)
  /\ IF a = "config"
       THEN /\ cfgCache' = IF cfgCache[Proc(p)] = "null" THEN [cfgCache EXCEPT ![Proc(p)] = "cfg"] ELSE cfgCache
            /\ UNCHANGED <<resAnn, facts, diags, reads>>
     ELSE IF a = "annot"
       THEN /\ resAnn' = [resAnn EXCEPT ![p] = AnnVal(p)]
            /\ facts' = [facts EXCEPT ![<<a, p>>] = AnnVal(p)]
            /\ UNCHANGED <<cfgCache, diags, reads>>
     ELSE IF a = "ign"
       THEN UNCHANGED <<cfgCache, resAnn, facts, diags, reads>>
     ELSE \* a checker: export the package's annotations as its own fact, consult the facts of the imports, report
          /\ facts' = [facts EXCEPT ![<<a, p>>] = IF "NoExportWithoutAnn" \in Deviations /\ resAnn[p] = "E" THEN "null" ELSE resAnn[p]]
          /\ reads' = reads \cup {<<a, p, q>> : q \in Consulted(p)}
          /\ diags' = [diags EXCEPT ![<<a, p>>] =
                         IF a = "impl" THEN {}
                         ELSE {q \in uses[p] : \/ (q = p /\ resAnn[p] = "A")
                                               \/ (q \in Consulted(p) /\ facts[<<a, q>>] = "A")}]
          /\ UNCHANGED <<cfgCache, resAnn>>
  /\ UNCHANGED <<ann, uses, named>>

Terminated == \A k \in Needed : st[k] = "done"
Finished == Terminated /\ UNCHANGED vars

Next == (\E a \in Analyzers, p \in Pkgs : Start(a, p) \/ End(a, p)) \/ Finished

Spec == Init /\ [][Next]_vars /\ WF_vars(\E a \in Analyzers, p \in Pkgs : Start(a, p) \/ End(a, p))

Termination == <>Terminated

(***************************************************************************)
(* Properties                                                              *)
(***************************************************************************)
\* C06 / C11: whatever the schedule, driver and run set, a named package gets exactly L1
SameDiags == Terminated => \A c \in Checkers, p \in named : diags[<<c, p>>] = L1Diags(c, p)
\* a fact is read only after it was written, and only from direct imports
ReadsOK == \A r \in reads : r[3] \in Imports(r[2])
FactsBeforeUse == \A a \in FactAnalyzers, p \in Pkgs : st[<<a, p>>] # "idle" => \A q \in Imports(p) : facts[<<a, q>>] # "null"
\* every finished fact-exporting action has exported, also for a package without annotations
ExportBeforeReturn == \A a \in FactAnalyzers, p \in Pkgs : st[<<a, p>>] = "done" => facts[<<a, p>>] # "null"
\* the configuration of a process is written once
CachedOnce == [][\A pr \in Procs : cfgCache[pr] # "null" => cfgCache'[pr] = cfgCache[pr]]_vars
\* only needed actions ever run
OnlyNeeded == \A k \in Analyzers \X Pkgs : st[k] # "idle" => k \in Needed

View == <<ann, uses, named, st, cfgCache, resAnn, facts, diags, reads>>

EmitInv == (Emit /\ Terminated) =>
   PrintT("@E " \o ToJson([shape |-> Shape, driver |-> Driver, named |-> named, hist |-> hist]))
=============================================================================
