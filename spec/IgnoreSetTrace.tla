--------------------------- MODULE IgnoreSetTrace ---------------------------
(***************************************************************************)
(* Trace validation for C16: histories recorded from the real              *)
(* util.IgnoreSet (vh ignoreset-record: longer histories, wider ranges,    *)
(* multi-token markers, inverted ranges, interleaved queries) are checked  *)
(* step by step against the actions of IgnoreSet.  Every step is           *)
(* deterministic; a Contains event is consumable only if the logged answer *)
(* equals both the operational model (Impl) and the property (Ref), so a   *)
(* wrong answer of the real code stops the trace at that line.  All        *)
(* invariants of IgnoreSet are evaluated after every consumed event.       *)
(***************************************************************************)
EXTENDS IgnoreSet, Json

CONSTANT TraceFile

Trace == ndJsonDeserialize(TraceFile)

VARIABLE l

tvars == <<vars, l>>

TraceInit == Init /\ l = 1 /\ TLCSet(1, 1)

IsEvent(e) == l <= Len(Trace) /\ Trace[l].ev = e /\ l' = l + 1
\* high-water mark of the consumed prefix; evaluated last, i.e. only when every guard of the action holds
Mark == TLCSet(1, l + 1)

TraceReset == /\ IsEvent("Reset")
              /\ markers' = <<>> /\ index' = [t \in Tokens |-> <<>>]
              /\ minPos' = 0 /\ maxPos' = 0 /\ mod' = <<>> /\ inited' = FALSE
              /\ UNCHANGED hist
              /\ Mark

TraceAdd == /\ IsEvent("Add")
            /\ Add(Trace[l].codes, Trace[l].s, Trace[l].e)
            /\ UNCHANGED hist
            /\ Mark

TraceAddModule == /\ IsEvent("AddModule")
                  /\ AddModule(Trace[l].codes)
                  /\ UNCHANGED hist
                  /\ Mark

TraceContains == /\ IsEvent("Contains")
                 /\ Impl(Trace[l].code, Trace[l].pos) = Trace[l].ans
                 /\ Ref(Trace[l].code, Trace[l].pos) = Trace[l].ans
                 /\ UNCHANGED vars
                 /\ Mark

TraceNext == TraceReset \/ TraceAdd \/ TraceAddModule \/ TraceContains

TraceSpec == TraceInit /\ [][TraceNext]_tvars

TraceAccepted ==
  IF TLCGet(1) = Len(Trace) + 1 THEN TRUE
  ELSE /\ PrintT("@REJECT line " \o ToString(TLCGet(1)) \o " " \o ToString(Trace[TLCGet(1)]))
       /\ FALSE
=============================================================================
