------------------------------ MODULE DiagTrace ------------------------------
(***************************************************************************)
(* Trace validation for C17: every diagnostic a real run produced, the     *)
(* effect of appending `// @ignore <its code>` to its line, and the exit   *)
(* status of the text mode are checked against the code table of Codes.    *)
(* Events (written by lib/checks/c17.py from real runs of the binary):     *)
(*   Diag     code, ncodes (distinct [CODE] tokens in the message),        *)
(*            analyzer, help (the documentation link shown), skipped (the  *)
(*            file is excluded by configuration), ownpkg (the file belongs *)
(*            to the package under analysis)                               *)
(*   Suppress code, selfgone (the diagnostic is gone), others (number of   *)
(*            other diagnostics that disappeared), added (codes that       *)
(*            appeared), samefile (all added ones are in the same file)    *)
(*   Exit     rc, printed (number of diagnostics printed in text mode)     *)
(***************************************************************************)
EXTENDS Codes, Integers, TLC, Json

CONSTANT TraceFile

Trace == ndJsonDeserialize(TraceFile)

VARIABLES l, seen

IsEvent(e) == l <= Len(Trace) /\ Trace[l].ev = e /\ l' = l + 1
Mark == TLCSet(1, l + 1)
E == Trace[l]

BaseURL == "https://a14e.github.io/gogreement/"
Once(c) == c \in {"TONL01", "PKGO01"}

TraceInit == l = 1 /\ seen = {} /\ TLCSet(1, 1)

\* well-formed, documented, located in an analysed file of the analysed package
TraceDiag ==
  /\ IsEvent("Diag")
  /\ E.code \in AllCodes
  /\ E.ncodes = 1
  /\ E.analyzer = AnalyzerOf(CatOf(E.code))
  /\ E.help = BaseURL \o DocPage(CatOf(E.code))
  /\ ~E.skipped /\ E.ownpkg
  /\ seen' = seen \cup {E.code}
  /\ Mark

\* suppressible by the code it shows: it disappears, nothing else does; only a once-per-file report may move
TraceSuppress ==
  /\ IsEvent("Suppress")
  /\ E.selfgone
  /\ E.others = 0
  /\ IF Once(E.code) THEN \A i \in 1..Len(E.added) : E.added[i] = E.code /\ E.samefile
     ELSE Len(E.added) = 0
  /\ UNCHANGED seen
  /\ Mark

\* text mode: non-zero exit status exactly when something is printed
TraceExit ==
  /\ IsEvent("Exit")
  /\ (E.rc # 0) = (E.printed > 0)
  /\ UNCHANGED seen
  /\ Mark

TraceNext == TraceDiag \/ TraceSuppress \/ TraceExit
TraceSpec == TraceInit /\ [][TraceNext]_<<l, seen>>

SeenOK == seen \subseteq AllCodes

TraceAccepted ==
  IF TLCGet(1) = Len(Trace) + 1 THEN TRUE
  ELSE /\ PrintT("@REJECT line " \o ToString(TLCGet(1)) \o " " \o ToString(Trace[TLCGet(1)]))
       /\ FALSE
\* every one of the 16 codes was exercised (checked by the harness on the accepted trace: `seen` is printed here)
AllSeen == (l = Len(Trace) + 1) => seen = AllCodes
=============================================================================
