----------------------------- MODULE CorpusTrace -----------------------------
(***************************************************************************)
(* Trace validation on corpora (C09, C10): the specification as referee of *)
(* observed runs over real-world packages.                                 *)
(*   Annotated p        p contains a comment line that starts with an      *)
(*                      annotation keyword (found by an independent scan), *)
(*                      or imports such a package: outside C09's premise   *)
(*   Reset              a new run (driver, configuration) begins           *)
(*   Start a p pid      an action begins                                   *)
(*   End a p pid ndiags an action returns; `err` present = analyzer error  *)
(*   Finish             the driver returned; rc = its exit status class    *)
(* C10: every Start has its End, without error, and the driver finishes    *)
(* normally.  C09: an action on a package that is not Annotated reports    *)
(* nothing.                                                                *)
(***************************************************************************)
EXTENDS Integers, Sequences, FiniteSets, TLC, Json

CONSTANT TraceFile

Trace == ndJsonDeserialize(TraceFile)

VARIABLES l, running, annotated, ended, reported

tvars == <<l, running, annotated, ended, reported>>

IsEvent(e) == l <= Len(Trace) /\ Trace[l].ev = e /\ l' = l + 1
Mark == TLCSet(1, l + 1)
E == Trace[l]
Has(e, f) == f \in DOMAIN e

TraceInit == l = 1 /\ running = <<>> /\ annotated = {} /\ ended = 0 /\ reported = 0 /\ TLCSet(1, 1)

TraceAnnotated == /\ IsEvent("Annotated")
                  /\ annotated' = annotated \cup {E.p}
                  /\ UNCHANGED <<running, ended, reported>> /\ Mark

TraceReset == /\ IsEvent("Reset")
              /\ running' = <<>>
              /\ UNCHANGED <<annotated, ended, reported>> /\ Mark

\* `running` is a bag (key -> count): a package and its test variant share the package path and may be analysed concurrently
Count(k) == IF k \in DOMAIN running THEN running[k] ELSE 0
TraceStart == /\ IsEvent("Start")
              /\ running' = [k \in DOMAIN running \cup {<<E.pid, E.a, E.p>>} |-> IF k = <<E.pid, E.a, E.p>> THEN Count(k) + 1 ELSE running[k]]
              /\ UNCHANGED <<annotated, ended, reported>> /\ Mark

TraceEnd == /\ IsEvent("End")
            /\ Count(<<E.pid, E.a, E.p>>) > 0
            /\ ~Has(E, "err")                                   \* C10: no analyzer error
            /\ (E.p \notin annotated) => E.ndiags = 0           \* C09: nothing reported without annotations
            /\ running' = [k \in {x \in DOMAIN running : x # <<E.pid, E.a, E.p>> \/ running[x] > 1} |->
                               IF k = <<E.pid, E.a, E.p>> THEN running[k] - 1 ELSE running[k]]
            /\ ended' = ended + 1
            /\ reported' = reported + E.ndiags
            /\ UNCHANGED annotated /\ Mark

TraceFinish == /\ IsEvent("Finish")
               /\ DOMAIN running = {}                           \* C10: a crash or hang leaves an action running
               /\ E.ok                                          \* the driver itself returned normally
               /\ UNCHANGED <<running, annotated, ended, reported>> /\ Mark

TraceNext == TraceAnnotated \/ TraceReset \/ TraceStart \/ TraceEnd \/ TraceFinish
TraceSpec == TraceInit /\ [][TraceNext]_tvars

Sane == ended >= 0 /\ reported >= 0

TraceAccepted ==
  IF TLCGet(1) = Len(Trace) + 1 THEN TRUE
  ELSE /\ PrintT("@REJECT line " \o ToString(TLCGet(1)) \o " " \o ToString(Trace[TLCGet(1)]))
       /\ FALSE
=============================================================================
