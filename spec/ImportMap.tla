------------------------------ MODULE ImportMap ------------------------------
(***************************************************************************)
(* util.ImportMap (src/util/importmap.go): the per-file table of imports   *)
(* that resolves the qualifier of `@implements pkg.I`.                     *)
(*                                                                         *)
(* An import is [alias, path, name]: explicit alias ("" if none), import   *)
(* path, declared name of the imported package ("" if unknown).  Find(q)   *)
(* as implemented consults four classes in order and returns the first     *)
(* import (in file order) of the first non-empty class:                    *)
(*   1 alias = q   2 declared name = q   3 path = q   4 path ends in "/q"  *)
(* L1 (Go's binding rule, which property C05 refers to): q is bound by an  *)
(* import iff its alias is q, or it has no alias and its declared name is  *)
(* q.  Classes 3 and 4 are a fallback for imports whose declared name is   *)
(* unknown; for imports with a known name they are the deviation           *)
(* PathElemBinds (known finding KF1 of C05).                               *)
(***************************************************************************)
EXTENDS Integers, Sequences, FiniteSets, TLC, Json

CONSTANTS Emit, MaxImports

VARIABLES imports, q, ph, res

vars == <<imports, q, ph, res>>

Names == {"a", "b"}
Paths == {"a", "x/a", "x/b", "xa", "b"}
Imp == [alias : {"", "a", "b"}, path : Paths, name : {"", "a", "b"}]

LastElem(p) == CASE p = "a" -> "a" [] p = "x/a" -> "a" [] p = "x/b" -> "b" [] p = "xa" -> "xa" [] p = "b" -> "b"
HasSlashSuffix(p, x) == p \in {"x/a", "x/b"} /\ LastElem(p) = x

Init == /\ imports \in UNION {[1..k -> Imp] : k \in 0..MaxImports}
        /\ q \in Names \cup {""}
        /\ ph = 1 /\ res = 0

\* one pass per class; the first hit wins
Class(c, im, x) == CASE c = 1 -> im.alias # "" /\ im.alias = x
                     [] c = 2 -> im.name # "" /\ im.name = x
                     [] c = 3 -> im.path = x
                     [] c = 4 -> HasSlashSuffix(im.path, x)
FirstOf(c) == IF \E i \in 1..Len(imports) : Class(c, imports[i], q)
              THEN CHOOSE i \in 1..Len(imports) : Class(c, imports[i], q) /\ \A j \in 1..(i - 1) : ~Class(c, imports[j], q)
              ELSE 0

Pass == /\ ph \in 1..4
        /\ IF q = "" THEN res' = 0 /\ ph' = 5
           ELSE IF FirstOf(ph) # 0 THEN res' = FirstOf(ph) /\ ph' = 5
           ELSE res' = 0 /\ ph' = ph + 1
        /\ UNCHANGED <<imports, q>>
Finished == ph = 5 /\ UNCHANGED vars
Next == Pass \/ Finished
Spec == Init /\ [][Next]_vars /\ WF_vars(Pass)
Done == ph = 5
Termination == <>Done

\* Go's rule
GoBinds(im, x) == x # "" /\ ((im.alias # "" /\ im.alias = x) \/ (im.alias = "" /\ im.name # "" /\ im.name = x))
\* whenever Go binds the qualifier, Find returns an import (and one that the qualifier could denote)
FindsBound == Done => ((\E i \in 1..Len(imports) : GoBinds(imports[i], q)) => res # 0)
\* the result, if any, is an import matched by one of the four classes, never anything else
ResultMatches == (Done /\ res # 0) => \E c \in 1..4 : Class(c, imports[res], q)
\* with every declared name known and no alias hiding it, a hit is a Go binding - unless it comes from classes 3 / 4 (KF1)
OnlyFallbackDeviates == (Done /\ res # 0 /\ \A i \in 1..Len(imports) : imports[i].name # "") =>
                           (GoBinds(imports[res], q) \/ Class(2, imports[res], q) \/ Class(3, imports[res], q) \/ Class(4, imports[res], q))

EmitInv == (Emit /\ Done) => PrintT("@E " \o ToJson([imports |-> imports, q |-> q, res |-> res]))
=============================================================================
