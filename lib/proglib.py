"""Running generated Go programs through the real gogreement code.

A *program* is {"id", "pkgs": [{"path", "name", "files": [{"name", "src"}]}], "named": [...]} with
packages in dependency order and file names relative to the module root (module path "m",
package "m/x/y" lives in directory "x/y").

Drivers:
  run_vh      - in-process: hand-built packages + golang.org/x/tools/go/analysis/checker (harness `vh run`)
  run_binary  - the unmodified cmd/gogreement binary: `gogreement -json <patterns>` (standalone multichecker)
  run_vet     - `go vet -vettool=<binary>`: one process per package, facts serialised to vetx files
All return, per program, a list of diagnostics {pkg, analyzer, file, line, col, msg, code}.
"""
import hashlib
import json
import os
import re
import shutil
import subprocess

import vlib

CODE_RE = re.compile(r"\[([A-Z]{3,4}\d\d)\]")

ANALYZER_OF = {"IMM": "immutabilitychecker", "CTOR": "constructorchecker", "TONL": "testonlychecker",
               "PKGO": "packageonlychecker", "IMPL": "implementschecker"}


def code_of(msg):
    m = CODE_RE.search(msg.split("\n")[0])
    return m.group(1) if m else None


def cfg_flags(cfg, prefix="-"):
    """cfg: dict with optional keys scan_tests (str), exclude_paths (str), exclude_checks (str)."""
    out = []
    cfg = cfg or {}
    if cfg.get("scan_tests") is not None:
        out.append("%sscan-tests=%s" % (prefix, cfg["scan_tests"]))
    if cfg.get("exclude_paths") is not None:
        out.append("%sexclude-paths=%s" % (prefix, cfg["exclude_paths"]))
    if cfg.get("exclude_checks") is not None:
        out.append("%sexclude-checks=%s" % (prefix, cfg["exclude_checks"]))
    return out


def run_vh(ctx, programs, cfg=None, sequential=False, sanity=True, dump=False, timeout=600, jobs=None, trace=None, exe=None,
           stderr_to=None, revbases=False):
    """Analyse programs in one harness process (one configuration). Returns {id: result}."""
    if not programs:
        return {}
    ids = [p["id"] for p in programs]
    if len(set(ids)) != len(ids):
        raise vlib.ToolError("duplicate program ids in one batch: %s" % sorted({i for i in ids if ids.count(i) > 1})[:5])
    work = os.path.join(ctx.scratch, "vhrun")
    os.makedirs(work, exist_ok=True)
    cmd = [exe or ctx.vh(), "run", "-dir", work] + cfg_flags(cfg)
    if trace:
        cmd += ["-trace", trace]
    if sequential:
        cmd.append("-sequential")
    if not sanity:
        cmd.append("-sanity=false")
    if dump:
        cmd.append("-dump")
    if revbases:
        cmd.append("-revbases")
    if jobs:
        cmd += ["-j", str(jobs)]
    # every program gets its own module path (m -> m<k>): state that the code under test keeps per package path
    # for the lifetime of the process cannot leak from one program of the batch into another
    data = "\n".join(json.dumps(_relocate(p, "m%d" % k)) for k, p in enumerate(programs)) + "\n"
    try:
        r = subprocess.run(cmd, input=data, stdout=subprocess.PIPE, stderr=subprocess.PIPE, text=True,
                           timeout=timeout, env=vlib.go_env())
    except subprocess.TimeoutExpired:
        raise vlib.ToolError("vh run timed out after %ds on %d programs" % (timeout, len(programs)))
    if stderr_to is not None:
        stderr_to.append(r.stderr)
    out = {}
    for line in r.stdout.splitlines():
        if not line.strip():
            continue
        res = json.loads(line)
        res["diags"] = res.get("diags") or []
        for d in res["diags"]:
            d["code"] = code_of(d["msg"])
            d["pkg"] = re.sub(r"^m\d+/", "m/", d["pkg"])
        for key in ("ann", "marks"):
            if res.get(key):
                res[key] = {re.sub(r"^m\d+/", "m/", k): v for k, v in res[key].items()}
        out[res["id"]] = res
    if r.returncode != 0 or len(out) != len(programs):
        # the process died (a crash outside an analyzer's Run, e.g. a fatal error): find the culprit one by one
        if len(programs) == 1:
            p = programs[0]
            out[p["id"]] = {"id": p["id"], "diags": [], "fail": "harness process died: rc=%s %s" % (r.returncode, r.stderr[-1500:])}
            return out
        missing = [p for p in programs if p["id"] not in out]
        m = re.search(r"^(fatal error: .*|panic: .*)$", r.stderr, re.M)
        if m and len(missing) > 50:
            # the Go runtime killed the harness process inside the code under test (e.g. concurrent map writes between passes):
            # attribute it to the batch; the caller decides by re-running the batch
            for p in missing:
                out[p["id"]] = {"id": p["id"], "diags": [], "fail": "PROCESS DIED while analysing the batch concurrently: %s" % m.group(1), "batch_crash": True}
            return out
        if len(missing) > 200:
            raise vlib.ToolError("vh run failed on %d of %d programs: %s" % (len(missing), len(programs), r.stderr[-1500:]))
        for p in missing:
            out.update(run_vh(ctx, [p], cfg, sequential, sanity, dump, timeout, jobs, exe=exe))
    return out


def _relocate(program, modpath):
    out = dict(program)
    out["pkgs"] = []
    for pk in program["pkgs"]:
        files = []
        for f in pk["files"]:
            src = f["src"].replace('"m/', '"%s/' % modpath).replace("/MODSELF/", "/%s/" % modpath)
            if "@packageonly" in src:
                src = "\n".join(re.sub(r"(?<![\w/])m/", modpath + "/", l) if l.lstrip().startswith("// @packageonly") else l
                                for l in src.split("\n"))
            files.append({"name": f["name"].replace("/MODSELF/", "/%s/" % modpath), "src": src})
        out["pkgs"].append({"path": (modpath + pk["path"][1:]).replace("/MODSELF/", "/%s/" % modpath), "name": pk["name"], "files": files})
    if program.get("named"):
        out["named"] = [modpath + n[1:] for n in program["named"]]
    if program.get("schedule"):
        out["schedule"] = [t.replace("@m/", "@%s/" % modpath) for t in program["schedule"]]
    if program.get("query"):
        q = dict(program["query"])
        q["pkg"] = modpath + q["pkg"][1:]
        q["iface_pkg"] = modpath + q["iface_pkg"][1:]
        out["query"] = q
    return out


def write_module(root, program, modpath="m"):
    os.makedirs(root, exist_ok=True)
    with open(os.path.join(root, "go.mod"), "w") as f:
        f.write("module %s\n\ngo 1.25\n" % modpath)
    for pk in program["pkgs"]:
        for fl in pk["files"]:
            p = os.path.join(root, fl["name"].replace("/MODSELF/", "/%s/" % modpath))
            os.makedirs(os.path.dirname(p), exist_ok=True)
            src = fl["src"].replace("/MODSELF/", "/%s/" % modpath)
            if modpath != "m":
                src = src.replace('"m/', '"%s/' % modpath)
                if "@packageonly" in src:
                    # allow-lists name packages by import path: follow the renamed module
                    src = "\n".join(re.sub(r"(?<![\w/])m/", modpath + "/", l) if l.lstrip().startswith("// @packageonly") else l
                                    for l in src.split("\n"))
            with open(p, "w") as f:
                f.write(src)


def _patterns(program, named):
    if not named:
        return ["./..."]
    return ["./" + n.split("/", 1)[1] if "/" in n else "." for n in named]


def parse_json_tree(text, root, modpath="m"):
    """Parse `-json` output of multichecker / go vet (a sequence of JSON objects)."""
    diags = []
    errors = []
    dec = json.JSONDecoder()
    i = 0
    n = len(text)
    while i < n:
        while i < n and text[i] not in "{":
            # skip '# pkg' header lines that go vet prints
            j = text.find("\n", i)
            if j < 0:
                i = n
                break
            i = j + 1
        if i >= n:
            break
        try:
            obj, j = dec.raw_decode(text, i)
        except ValueError:
            break
        i = j
        for pkg, byan in obj.items():
            pkgid = pkg.split(" ")[0]
            if pkgid.endswith(".test"):
                continue
            for an, val in byan.items():
                if isinstance(val, dict) and "error" in val:
                    errors.append("%s/%s: %s" % (pkg, an, val["error"]))
                    continue
                for d in val or []:
                    posn = d.get("posn", "")
                    m = re.match(r"(.*):(\d+):(\d+)$", posn)
                    m2 = re.match(r"(.*):(\d+)$", posn)
                    if m:
                        fn, ln, col = m.group(1), int(m.group(2)), int(m.group(3))
                    elif m2:
                        # a position below a `//line file:N` directive without a column has no column
                        fn, ln, col = m2.group(1), int(m2.group(2)), 0
                    else:
                        fn, ln, col = posn, 0, 0
                    if os.path.isabs(fn):
                        fn = os.path.relpath(fn, root)
                    p = pkgid
                    if modpath != "m" and p.startswith(modpath):
                        p = "m" + p[len(modpath):]
                    diags.append({"pkg": p, "analyzer": an, "file": fn, "line": ln, "col": col,
                                  "msg": d.get("message", ""), "code": code_of(d.get("message", ""))})
    return diags, errors


def dedup(diags):
    seen = set()
    out = []
    for d in diags:
        # test variants (p [p.test]) and external test packages repeat the diagnostics of p
        k = (d["file"], d["line"], d["col"], d["analyzer"], d["msg"])
        if k not in seen:
            seen.add(k)
            out.append(d)
    return sorted(out, key=lambda d: (d["file"], d["line"], d["col"], d["msg"]))


def run_binary(ctx, program, cfg=None, named=None, env_cfg=None, text=False, timeout=120, keep=False, binary=None,
               extra_env=None, args_override=None):
    """Run the real binary on the program written out as a module. Returns dict(diags, rc, stdout, stderr, fail)."""
    root = os.path.join(ctx.scratch, "mod_" + hashlib.sha1((program["id"] + repr(cfg) + repr(named) + repr(env_cfg)).encode()).hexdigest()[:12])
    write_module(root, program)
    exe = binary or ctx.binary("gogreement")
    cmd = [exe]
    if not text:
        cmd.append("-json")
    cmd += cfg_flags(cfg, "--config.")
    cmd += args_override if args_override is not None else _patterns(program, named)
    env = vlib.go_env(env_cfg)
    if extra_env:
        env.update(extra_env)
    try:
        r = subprocess.run(cmd, cwd=root, env=env, stdout=subprocess.PIPE, stderr=subprocess.PIPE, text=True, timeout=timeout)
        rc, so, se = r.returncode, r.stdout, r.stderr
        fail = None
    except subprocess.TimeoutExpired:
        rc, so, se, fail = -1, "", "", "HANG: binary did not finish within %ds" % timeout
    res = {"rc": rc, "stdout": so, "stderr": se, "fail": fail, "root": root, "cmd": cmd}
    if fail is None:
        if vlib.crashed(se):
            res["fail"] = "crash: " + se[-1500:]
        if not text:
            res["diags"], errs = parse_json_tree(so, root)
            res["diags"] = dedup(res["diags"])
            if errs:
                res["fail"] = (res["fail"] or "") + " analyzer errors: " + "; ".join(errs)[:1500]
    if not keep:
        shutil.rmtree(root, ignore_errors=True)
    return res


def run_vet(ctx, program, cfg=None, named=None, env_cfg=None, timeout=300, keep=False, binary=None, extra_env=None):
    """go vet -vettool=<binary> -json: the unitchecker driver (facts through vetx files).
    The module path embeds a hash of (program, configuration): go vet caches vetx files keyed on
    inputs that do not include GOGREEMENT_* or the tool's flags semantics."""
    h = hashlib.sha1((json.dumps(program, sort_keys=True) + repr(cfg) + repr(env_cfg)).encode()).hexdigest()[:10]
    modpath = "m" + h
    root = os.path.join(ctx.scratch, "vet_" + h)
    write_module(root, program, modpath)
    exe = binary or ctx.binary("gogreement")
    cmd = ["go", "vet", "-vettool=" + exe, "-json"] + cfg_flags(cfg, "-config.") + _patterns(program, named)
    env = vlib.go_env(env_cfg)
    if extra_env:
        env.update({k: v.replace("m/", modpath + "/") if k == "VERIF_TRACE_PREFIX" else v for k, v in extra_env.items()})
    try:
        r = subprocess.run(cmd, cwd=root, env=env, stdout=subprocess.PIPE, stderr=subprocess.PIPE, text=True, timeout=timeout)
        rc, so, se, fail = r.returncode, r.stdout, r.stderr, None
    except subprocess.TimeoutExpired:
        rc, so, se, fail = -1, "", "", "HANG: go vet did not finish within %ds" % timeout
    res = {"rc": rc, "stdout": so, "stderr": se, "fail": fail, "root": root}
    if fail is None:
        # go vet -json writes the JSON trees to stderr
        diags, errs = parse_json_tree(se, root, modpath)
        res["diags"] = dedup(diags)
        if vlib.crashed(se):
            res["fail"] = "crash: " + se[-1500:]
        elif errs:
            res["fail"] = "analyzer errors: " + "; ".join(errs)[:1500]
        elif rc != 0 and not diags and "{" not in se:
            res["fail"] = "go vet failed: " + se[-1500:]
    if not keep:
        shutil.rmtree(root, ignore_errors=True)
    return res


def keyset(diags, analyzers=None, cats=None):
    """Project diagnostics to comparable keys (file, line, code)."""
    out = set()
    for d in diags:
        if analyzers and d["analyzer"] not in analyzers:
            continue
        if cats and not (d["code"] and d["code"][:-2] in cats):
            continue
        out.add((d["file"], d["line"], d["code"]))
    return out
