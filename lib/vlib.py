"""Shared machinery of the /verif checks: scratch space, TLC runs, harness and
binary builds from /repo's working tree, evidence files, verdict lines.

Verdict policy (DESIGN.md 2.2): exit 0 = property held on everything explored;
exit 1 + "VIOLATION property=<id> replay=<path>" only for a reproduced
mismatch between the real code and the specification; exit 2 for everything
that is not a verdict about gogreement (TLC/tool failure, model error,
time-out, un-reproduced mismatch).
"""
import json
import os
import re
import shutil
import subprocess
import sys
import tempfile
import time

VERIF = os.path.dirname(os.path.dirname(os.path.abspath(__file__)))
REPO = os.environ.get("VERIF_REPO", "/repo")
SPEC = os.path.join(VERIF, "spec")
HARNESS = os.path.join(VERIF, "harness")
# VERIF_OUT redirects evidence and replay files (used by bin/pseedmatrix, which runs the checks against scratch worktrees
# given by VERIF_REPO; the registered commands use neither variable: /repo, /verif/evidence, /verif/replays)
_OUT = os.environ.get("VERIF_OUT", VERIF)
EVIDENCE = os.path.join(_OUT, "evidence")
REPLAYS = os.path.join(_OUT, "replays")
NCPU = os.cpu_count() or 4


class ToolError(Exception):
    """Anything that is not a verdict about gogreement (exit 2)."""


def go_env(extra=None):
    env = {k: v for k, v in os.environ.items() if not k.startswith("GOGREEMENT_")}
    env["GOFLAGS"] = "-mod=mod"
    env["GOPROXY"] = "off"
    env.pop("GOSUMDB", None)
    env.pop("GOTOOLCHAIN", None)
    env.pop("VERIF_TRACE", None)
    env.pop("VERIF_SCHEDULE", None)
    if extra:
        env.update(extra)
    return env


class Ctx:
    def __init__(self, pid, tier, seed):
        self.pid = pid
        self.tier = tier
        self.seed = seed
        self.t0 = time.time()
        base = "/dev/shm" if os.path.isdir("/dev/shm") and os.access("/dev/shm", os.W_OK) else None
        # scratch paths must be inert for gogreement's own path filters (exclude-paths is a substring match
        # on absolute file names) and for the tokens the checks use as exclude-paths values
        while True:
            self.scratch = tempfile.mkdtemp(prefix="vf%s" % pid.lower(), dir=base)
            if not any(t in self.scratch for t in ("testdata", "_test", "zzge", "nomatch", "gen", "vendor")):
                break
            shutil.rmtree(self.scratch, ignore_errors=True)
        self.specdir = os.path.join(self.scratch, "spec")
        shutil.copytree(SPEC, self.specdir)
        self.tlc_runs = []
        self.states = 0
        self.transitions = 0
        self.coverage = {}
        self.violations = []  # (what, replay path)
        self.known = []
        self.notes = []
        self._vh = None
        self._bin = {}
        self._n = 0

    # ---------------------------------------------------------------- build
    def harness_dir(self):
        """The harness module; a scratch copy whose replace directive points to VERIF_REPO when that is not /repo."""
        if REPO == "/repo":
            return HARNESS
        d = os.path.join(self.scratch, "harness_src")
        if not os.path.isdir(d):
            shutil.copytree(HARNESS, d)
            gm = open(os.path.join(d, "go.mod")).read().replace("=> /repo", "=> " + REPO)
            open(os.path.join(d, "go.mod"), "w").write(gm)
            shutil.copy(os.path.join(REPO, "go.sum"), os.path.join(d, "go.sum"))
        return d

    def vh(self):
        """Build the harness (and with it /repo's packages) from the current tree."""
        if self._vh is None:
            out = os.path.join(self.scratch, "bin", "vh")
            os.makedirs(os.path.dirname(out), exist_ok=True)
            r = subprocess.run(["go", "build", "-o", out, "./cmd/vh"], cwd=self.harness_dir(), env=go_env(),
                               stdout=subprocess.PIPE, stderr=subprocess.STDOUT, text=True)
            if r.returncode != 0:
                raise ToolError("harness build failed (does /repo compile?):\n" + r.stdout)
            self._vh = out
        return self._vh

    def vh_race(self):
        """The harness built with the race detector (C11)."""
        return self.binary("vh", race=True)

    def binary(self, name="gogreement", race=False, tags=None):
        """Build a command of /repo (gogreement) or of the harness (ggtrace)."""
        key = (name, race, tags)
        if key not in self._bin:
            out = os.path.join(self.scratch, "bin", name + ("_race" if race else ""))
            os.makedirs(os.path.dirname(out), exist_ok=True)
            if name == "gogreement":
                cwd, pkg = REPO, "./cmd/gogreement"
            else:
                cwd, pkg = self.harness_dir(), "./cmd/" + name
            cmd = ["go", "build"]
            if race:
                cmd.append("-race")
            if tags:
                cmd += ["-tags", tags]
            cmd += ["-o", out, pkg]
            r = subprocess.run(cmd, cwd=cwd, env=go_env(), stdout=subprocess.PIPE,
                               stderr=subprocess.STDOUT, text=True)
            if r.returncode != 0:
                raise ToolError("build of %s failed:\n%s" % (name, r.stdout))
            self._bin[key] = out
        return self._bin[key]

    # ------------------------------------------------------------------ TLC
    def tlc(self, module, cfg, workers=None, timeout=900, simulate=None, depth=None,
            coverage=False, extra_modules=None, jvm=None, label=None, count=True,
            allow_violation=False, collect_emit=True):
        """Run TLC on spec/<module>.tla with the given cfg text inside the scratch copy.

        Returns a dict: ok, generated, distinct, depth, emit (list of strings emitted
        by the spec through PrintT("@E ...")), out (path of the full output),
        violated (name of a violated invariant/property or None), cov (action counts).
        """
        self._n += 1
        label = label or "%s_%d" % (module, self._n)
        for name, text in (extra_modules or {}).items():
            with open(os.path.join(self.specdir, name + ".tla"), "w") as f:
                f.write(text)
        cfgp = os.path.join(self.specdir, label + ".cfg")
        with open(cfgp, "w") as f:
            f.write(cfg)
        meta = os.path.join(self.scratch, "meta_" + label)
        outp = os.path.join(self.scratch, label + ".out")
        cmd = ["tlc", "-workers", str(workers or NCPU), "-metadir", meta, "-config", cfgp]
        if simulate:
            cmd += ["-simulate", simulate]
            if depth:
                cmd += ["-depth", str(depth)]
            cmd += ["-seed", str(self.seed)]
        if coverage:
            cmd += ["-coverage", "1"]
        cmd.append(os.path.join(self.specdir, module + ".tla"))
        env = dict(os.environ)
        if jvm:
            env["JAVA_TOOL_OPTIONS"] = jvm
        t0 = time.time()
        with open(outp, "w") as of:
            try:
                r = subprocess.run(cmd, cwd=self.specdir, stdout=of, stderr=subprocess.STDOUT,
                                   timeout=timeout, env=env)
                rc = r.returncode
            except subprocess.TimeoutExpired:
                subprocess.run(["pkill", "-f", meta], check=False)
                if simulate:
                    rc = 0  # simulation is bounded by the outer time-out by design
                else:
                    raise ToolError("TLC timed out after %ds on %s (see %s)" % (timeout, label, outp))
        res = parse_tlc(outp, collect_emit)
        res["rc"] = rc
        res["out"] = outp
        res["label"] = label
        res["wall_s"] = round(time.time() - t0, 2)
        shutil.rmtree(meta, ignore_errors=True)
        if res["violated"] is None and not res["ok"] and not simulate:
            raise ToolError("TLC failed on %s (rc=%s):\n%s" % (label, rc, tail(outp, 40)))
        if res["violated"] is not None and not allow_violation:
            # L2 does not satisfy L1 in the *model*: a bug in the specification, never a verdict
            raise ToolError("model error: TLC reports %s violated in %s:\n%s"
                            % (res["violated"], label, tail(outp, 60)))
        if count:
            self.states += res["distinct"]
            self.transitions += res["generated"]
        self.tlc_runs.append({k: res[k] for k in ("label", "generated", "distinct", "depth", "wall_s")})
        if coverage:
            self.coverage[label] = res["cov"]
        return res

    # ------------------------------------------------------------- verdicts
    def violation(self, what, replay_obj, name=None):
        os.makedirs(REPLAYS, exist_ok=True)
        name = name or "%s_%d_%d.json" % (self.pid, self.seed, len(self.violations))
        path = os.path.join(REPLAYS, name)
        with open(path, "w") as f:
            json.dump(replay_obj, f, indent=1, sort_keys=True)
        self.violations.append((what, path))
        if len(self.violations) > 3:
            return  # the first few are enough; the rest is counted in the evidence
        print("VIOLATION property=%s replay=%s" % (self.pid, path))
        print("  " + what)
        sys.stdout.flush()

    def apalache(self, module, init, inv, length, timeout=1800, label=None, expect_violation=False):
        """Run `apalache-mc check --init=<init> --inv=<inv> --length=<length>` on spec/<module>.tla in the scratch copy.
        Returns True if no error was found, False if the invariant is violated; anything else is a ToolError."""
        label = label or ("apa_%s_%s_%s" % (module, init, inv))
        outdir = os.path.join(self.scratch, label)
        cmd = ["apalache-mc", "check", "--out-dir=" + outdir, "--init=" + init, "--inv=" + inv, "--length=%d" % length, module + ".tla"]
        try:
            r = subprocess.run(cmd, cwd=self.specdir, stdout=subprocess.PIPE, stderr=subprocess.STDOUT, text=True, timeout=timeout)
        except subprocess.TimeoutExpired:
            raise ToolError("apalache timed out after %ds on %s %s/%s" % (timeout, module, init, inv))
        self.tlc_runs.append({"label": label, "tool": "apalache", "module": module, "init": init, "inv": inv, "length": length,
                              "result": "ok" if "EXITCODE: OK" in r.stdout else "violated" if "violated" in r.stdout else "error"})
        shutil.rmtree(outdir, ignore_errors=True)
        if "EXITCODE: OK" in r.stdout:
            return True
        if "invariant 0 violated" in r.stdout or "Found 1 error" in r.stdout:
            return False
        raise ToolError("apalache failed on %s: %s" % (module, r.stdout[-800:]))

    def note(self, what):
        """A disagreement between a specification and the code that lies outside the statement of the property this check decides
        (extra coverage of the specification): printed and recorded, never a verdict."""
        if what not in self.notes and len(self.notes) < 20:
            self.notes.append(what)
            print("NOTE property=%s (outside the property's statement, not a verdict): %s" % (self.pid, what))
            sys.stdout.flush()

    def known_finding(self, fid, what):
        if fid not in [k[0] for k in self.known]:
            self.known.append((fid, what))
            print("KNOWN-FINDING: property=%s %s" % (self.pid, what))
            sys.stdout.flush()

    def finish(self, level, coverage, assumptions=None):
        os.makedirs(EVIDENCE, exist_ok=True)
        cov = dict(coverage)
        if self.states:
            cov.setdefault("states", self.states)
            cov.setdefault("transitions", self.transitions)
        cov["tlc_runs"] = self.tlc_runs
        if self.coverage:
            cov["tlc_action_coverage"] = self.coverage
        if self.known:
            cov["known_findings_seen"] = [k[0] for k in self.known]
        if self.notes:
            cov["notes"] = self.notes
        ev = {
            "property_id": self.pid,
            "tier": self.tier,
            "seed": self.seed,
            "level": level,
            "coverage": cov,
            "assumptions": assumptions or [],
            "wall_s": round(time.time() - self.t0, 2),
            "violations": len(self.violations),
        }
        with open(os.path.join(EVIDENCE, self.pid + ".json"), "w") as f:
            json.dump(ev, f, indent=1, sort_keys=True)
            f.write("\n")
        return 1 if self.violations else 0

    def cleanup(self):
        shutil.rmtree(self.scratch, ignore_errors=True)


CRASH_RE = re.compile(r"(?m)^(panic: |fatal error: |goroutine \d+ \[|(?!\s*\d* \|)\S.*internal error)")


def crashed(stderr):
    """Crash output of a Go program / driver, as opposed to source excerpts that merely contain such words."""
    return bool(CRASH_RE.search(stderr or ""))


def tail(path, n):
    with open(path, errors="replace") as f:
        return "".join(f.readlines()[-n:])


_num = lambda s: int(s.replace(",", ""))


def unquote_tla(s):
    """Undo TLC's printing of a string value: surrounding quotes, \\" and \\\\."""
    s = s.strip()
    if s.startswith('"') and s.endswith('"'):
        s = s[1:-1]
    out = []
    i = 0
    while i < len(s):
        c = s[i]
        if c == "\\" and i + 1 < len(s):
            n = s[i + 1]
            out.append({"n": "\n", "t": "\t"}.get(n, n))
            i += 2
        else:
            out.append(c)
            i += 1
    return "".join(out)


def parse_tlc(outp, collect_emit=True):
    res = {"ok": False, "generated": 0, "distinct": 0, "depth": 0, "emit": [], "violated": None,
           "cov": {}, "reject": None}
    with open(outp, errors="replace") as f:
        for line in f:
            if "@E " in line:
                res["n_emit"] = res.get("n_emit", 0) + 1
                if not collect_emit:
                    continue
                s = line.strip()
                i = s.index("@E ")
                res["emit"].append(unquote_tla('"' + s[i + 3:]) if s.startswith('"') else s[i + 3:])
                continue
            if "@REJECT" in line:
                res["reject"] = unquote_tla(line.strip())
                res["violated"] = res["violated"] or "POSTCONDITION"
                continue
            m = re.match(r"(?:Progress.*: )?([\d,]+) states generated.*?([\d,]+) distinct states found", line)
            if m and not line.startswith("Progress"):
                res["generated"] = _num(m.group(1))
                res["distinct"] = _num(m.group(2))
            m = re.match(r"The depth of the complete state graph search is (\d+)", line)
            if m:
                res["depth"] = int(m.group(1))
            if "No error has been found" in line:
                res["ok"] = True
            m = re.match(r"Error: Invariant (\S+) is violated", line)
            if m:
                res["violated"] = m.group(1)
            if "Error: Action property" in line or "Error: Temporal properties were violated" in line:
                res["violated"] = res["violated"] or line.strip()
            if "Error: The postcondition" in line or "Postcondition" in line and "violated" in line:
                res["violated"] = res["violated"] or "POSTCONDITION"
            if "Error: Deadlock reached" in line:
                res["violated"] = res["violated"] or "Deadlock"
            # coverage lines:  <Action line .. of module M>: distinct:generated
            m = re.match(r"<(\w+) line \d+, col \d+ to line \d+, col \d+ of module (\w+)>: (\d+):(\d+)", line)
            if m:
                res["cov"][m.group(2) + "!" + m.group(1)] = res["cov"].get(m.group(2) + "!" + m.group(1), 0) + int(m.group(4))
            # simulation summary
            m = re.match(r"The number of states generated: ([\d,]+)", line)
            if m:
                res["generated"] = _num(m.group(1))
                res["distinct"] = res["distinct"] or _num(m.group(1))
                res["ok"] = True
    return res


def run(cmd, cwd=None, env=None, timeout=600, stdin=None):
    try:
        r = subprocess.run(cmd, cwd=cwd, env=env, input=stdin, stdout=subprocess.PIPE,
                           stderr=subprocess.PIPE, timeout=timeout, text=True)
    except subprocess.TimeoutExpired:
        raise ToolError("timeout after %ds: %s" % (timeout, " ".join(map(str, cmd))[:200]))
    return r


def load_known():
    path = os.path.join(VERIF, "known_findings.jsonl")
    out = []
    if os.path.exists(path):
        for line in open(path):
            line = line.strip()
            if line and not line.startswith("#") and not line.startswith("fixed:"):
                out.append(json.loads(line))
    return out


def main_wrapper(pid, fn):
    """Common entry: parse args, run fn(ctx), map exceptions to exit codes."""
    import argparse
    ap = argparse.ArgumentParser()
    ap.add_argument("--tier", default=os.environ.get("VERIF_TIER", "quick"), choices=["quick", "thorough"])
    ap.add_argument("--replay", default=None)
    ap.add_argument("--keep", action="store_true", help="keep the scratch directory")
    a = ap.parse_args(sys.argv[2:])
    seed = int(os.environ.get("VERIF_SEED", "1") or "1")
    ctx = Ctx(pid, a.tier, seed)
    ctx.replay = a.replay
    try:
        rc = fn(ctx)
    except ToolError as e:
        print("ERROR (not a verdict) property=%s: %s" % (pid, e), file=sys.stderr)
        # violations that were already reproduced and printed stand: a later stage giving up does not retract them
        rc = 1 if ctx.violations else 2
    finally:
        if a.keep:
            print("scratch kept at", ctx.scratch, file=sys.stderr)
        else:
            ctx.cleanup()
    return rc
