"""C03 - @testonly enforced exactly (DESIGN.md 5, C03)."""
import gen_tonl
from checks import c01

CFG = """SPECIFICATION Spec
CONSTANTS
  Mode = "%(mode)s"
  Deviations = %(dev)s
  Emit = %(emit)s
INVARIANTS Exact NoAnnNoDiag NoTestFileDiag %(emitinv)s
PROPERTIES Stable ReportedPerFile %(live)s
"""


def cfg(mode, emit=True, dev="{}", live=True):
    return CFG % dict(mode=mode, dev=dev, emit="TRUE" if emit else "FALSE", emitinv="EmitInv" if emit else "",
                      live="Termination" if live else "")


def describe(meta):
    return "pkg %s, ann %s, files %s" % (meta["pkg"], {k: v for k, v in meta["ann"].items() if v},
                                         [("test:" if f["test"] else "") + ",".join("%s/%s" % (c["ctx"], c["use"]) for c in f["conts"]) for f in meta["files"]])


def aligned_program():
    """Under go vet every package is analysed in a process of its own, so source positions of a dependency (which travel with its
    facts) mean nothing in the importing package.  d declares 72 @testonly functions in blocks of 64 bytes, u declares 64 unannotated
    callers in blocks of 65 bytes: whatever the offset between the two files, one caller's `func` keyword sits at the same byte offset
    as a @testonly declaration of d.  Every caller is reported."""
    d = "package d\n\n" + "".join("// TF%02d is a helper.\n// @testonly\nfunc TF%02d() int { return 0 }\n\n" % (i, i) for i in range(72))
    head = 'package u\n\nimport "m/d"\n\n'
    u = head
    exp = set()
    for j in range(64):
        u += "// r%02d pads its block.......\n" % j
        exp.add(("u/u.go", u.count("\n") + 1, "TONL02"))
        u += "func r%02d() int { return d.TF%02d() }\n\n" % (j, j)
    assert len(u) - len(head) == 64 * 65, len(u) - len(head)
    prog = {"id": "C03_aligned", "pkgs": [{"path": "m/d", "name": "d", "files": [{"name": "d/d.go", "src": d}]},
                                         {"path": "m/u", "name": "u", "files": [{"name": "u/u.go", "src": u}]}]}
    return (prog, exp, {"pkg": "u", "ann": {"func": True}, "files": [{"test": False, "conts": [{"ctx": "plain", "use": "callF at every byte offset class of the dependency's declarations"}]}]})


def run(ctx):
    return c01.run_family(
        ctx, "TestOnly", gen_tonl.build_tonl, {"TONL"}, cfg,
        modes_quick=[("single", None), ("seq2", None), ("seq3", 3000), ("spell", None)],
        modes_thorough=[("single", None), ("seq2", None), ("seq3", None), ("spell", None)],
        devs=[("DedupByName", "seq2", ("Exact",)), ("MatchByName", "single", ("Exact",)), ("StopAtReportedCall", "single", ("Exact",)), ("ExportedOnly", "single", ("Exact",)), ("OnePerPosition", "single", ("Exact",)), ("ElidedSkipped", "single", ("Exact",)), ("LocalUnexportedLost", "single", ("Exact",)), ("QualifierByText", "single", ("Exact",)), ("DedupBySpelling", "spell", ("Exact",)), ("RecvNameBySyntax", "single", ("Exact",)), ("GroupDocLeaks", "single", ("Exact",)),
              ("SkipMethodNamedLikeFunc", "single", ("Exact",))],
        describe=describe,
        extra_real=[aligned_program()],
        cfgs=(None, {"scan_tests": "true"}),
        assumptions=["fragment: non-generic defined types, direct imports, one use per top-level declaration",
                     "methods declared on a @testonly type (receiver uses) are not generated; the signature of a @testonly function is exempt with its body",
                     "diagnostics are compared as (file, line, code) sets of the TONL category, under the default configuration and with scan-tests on"],
        rule="every terminal state of TestOnly.tla (abstract program: annotation record, files with test/non-test flag, containers with one use "
             "each; expected TONL01 at the first unexempted use per file and type, TONL02/03 at every unexempted call) is concretised and analysed "
             "by the real analyzers in process under two configurations; a sample also through the unmodified binary and go vet -vettool")
