"""C16 - suppression decision = inclusive range + ALL > category > code (DESIGN.md 5, C16)."""
import json
import os
import subprocess

import vlib

TOK = "ALL,IMM,IMM01,IMM02,CTOR01,UNK"
QC = "IMM01,IMM02,CTOR01,CTOR02,CTOR,UNK"
TR_TOK = "ALL,IMM,IMM01,IMM02,CTOR,CTOR01,TONL,TONL01,PKGO02,IMPL03,UNK"
TR_QC = "IMM01,IMM02,IMM03,CTOR01,CTOR02,CTOR,TONL01,TONL02,PKGO02,PKGO01,IMPL03,UNK,ZZZ"

CFG = """SPECIFICATION Spec
CONSTANTS
  TokSeq <- MCTokSeq
  QCodeSeq <- MCQCodeSeq
  MaxPos = 5
  MaxOps = %(maxops)d
  Canonical = %(canon)s
  EmitFile = "%(emit)s"
  Part = %(part)d
  NParts = %(nparts)d
INVARIANTS Agree IndexOK MinMaxOK UninitNever OtherNever %(emitinv)s
PROPERTY Monotone
CHECK_DEADLOCK FALSE
"""

TRACE_CFG = """SPECIFICATION TraceSpec
CONSTANTS
  TokSeq <- MCTokSeq
  QCodeSeq <- MCQCodeSeq
  MaxPos = 40
  MaxOps = 0
  Canonical = FALSE
  EmitFile = ""
  Part = 0
  NParts = 1
  TraceFile = "%s"
INVARIANTS Agree IndexOK MinMaxOK
POSTCONDITION TraceAccepted
CHECK_DEADLOCK FALSE
"""


def cfg(maxops, canon, emit, part=0, nparts=1):
    return CFG % dict(maxops=maxops, canon="TRUE" if canon else "FALSE", emit="stdout" if emit else "",
                      emitinv="EmitInv" if emit else "", part=part, nparts=nparts)


def replay_one(ctx, mm):
    """Re-run one mismatch alone; only a reproduced mismatch is a violation."""
    p = os.path.join(ctx.scratch, "mm.json")
    with open(p, "w") as f:
        json.dump(mm, f)
    r = vlib.run([ctx.vh(), "ignoreset-replay", "-replay", p])
    return r.returncode == 1


def run(ctx):
    vh = ctx.vh()
    if ctx.replay and json.load(open(ctx.replay)).get("kind") == "codes":
        import progcheck
        progcheck.codes_table_check(ctx, {"hier"})
        return 1 if ctx.violations else 0
    if ctx.replay:
        r = vlib.run([vh, "ignoreset-replay", "-replay", ctx.replay])
        print(r.stdout.strip())
        if r.returncode == 1:
            print("VIOLATION property=C16 replay=%s" % ctx.replay)
        return r.returncode
    thorough = ctx.tier == "thorough"
    samples = []
    replayed_states = replayed_hist = queries = nontrivial = 0

    # (1) coverage / vacuity run on the smallest model
    r = ctx.tlc("MCIgnoreSet", cfg(2, False, False), coverage=True, label="c16_cov")
    zero = [a for a, n in r["cov"].items() if n == 0]
    if zero:
        raise vlib.ToolError("vacuous actions in IgnoreSet: %s" % zero)

    # (2) exhaustive model check + emission of every reached state, canonical order in TLC,
    #     every insertion order in the replay
    maxops = 4 if thorough else 3
    parts = 16 if thorough else 1
    procs = []
    if parts == 1:
        runs = [ctx.tlc("MCIgnoreSet", cfg(maxops, True, True), collect_emit=False, label="c16_emit", timeout=1500)]
    else:
        # partition by first operation; each TLC uses a slice of the cores
        import concurrent.futures as cf
        with cf.ThreadPoolExecutor(4) as ex:
            futs = [ex.submit(ctx.tlc, "MCIgnoreSet", cfg(maxops, True, True, k, parts), 4, 3000,
                              None, None, False, None, "-Xmx8g", "c16_emit_p%d" % k, True, False, False)
                    for k in range(parts)]
            runs = [f.result() for f in futs]
    for r in runs:
        with open(r["out"]) as f:
            p = subprocess.run([vh, "ignoreset-replay", "-tokens", TOK, "-qcodes", QC, "-maxpos", "5"],
                               stdin=f, stdout=subprocess.PIPE, stderr=subprocess.PIPE, text=True)
        if p.returncode not in (0, 1):
            raise vlib.ToolError("ignoreset-replay failed: " + p.stderr[-2000:])
        res = json.loads(p.stdout)
        if parts == 1 and res["states"] != r["distinct"]:
            raise vlib.ToolError("emitted %d states but TLC found %d" % (res["states"], r["distinct"]))
        replayed_states += res["states"]
        replayed_hist += res["histories"]
        queries += res["queries"]
        nontrivial += res["true_answers"]
        samples += (res["samples"] or [])[:1]
        for mm in (res["mismatches"] or [])[:5]:
            if replay_one(ctx, mm):
                ctx.violation("Contains(%s,%d) = %s after %s, the specification says %s"
                              % (mm["code"], mm["pos"], mm["observed"], mm["ops"], mm["expected"]), mm)
            else:
                raise vlib.ToolError("mismatch did not reproduce: %s" % mm)
        os.remove(r["out"])

    # (2b) the ALL > category > code lists that every module takes from Codes.tla, against src/codes/codes.go
    import progcheck
    progcheck.codes_table_check(ctx, {"hier"})

    # (2c) thorough: the representation invariant is inductive and implies Impl = Ref for *any* set of markers over 5 positions and
    # 6 tokens, however many add-operations built it (Apalache; TLC above is bounded by the number of operations)
    if thorough:
        if not ctx.apalache("IgnoreSetInd", "Init", "IndInv", 0):
            raise vlib.ToolError("IgnoreSetInd: Init does not establish IndInv")
        if not ctx.apalache("IgnoreSetInd", "IndInit", "IndInv", 1, timeout=3000):
            raise vlib.ToolError("IgnoreSetInd: IndInv is not inductive")
        if not ctx.apalache("IgnoreSetInd", "IndInit", "Agree", 0, timeout=3000):
            raise vlib.ToolError("IgnoreSetInd: IndInv does not imply Agree")
        src = open(os.path.join(ctx.specdir, "IgnoreSetInd.tla")).read()
        dev = src.replace("p < minPos \\/ p > maxPos THEN FALSE", "p <= minPos \\/ p > maxPos THEN FALSE").replace("MODULE IgnoreSetInd ", "MODULE IgnoreSetIndDev ")
        if dev == src.replace("MODULE IgnoreSetInd ", "MODULE IgnoreSetIndDev "):
            raise vlib.ToolError("could not build the deviation of IgnoreSetInd")
        open(os.path.join(ctx.specdir, "IgnoreSetIndDev.tla"), "w").write(dev)
        if ctx.apalache("IgnoreSetIndDev", "IndInit", "Agree", 0, timeout=3000):
            raise vlib.ToolError("IgnoreSetInd: Agree holds with a broken fast reject as well: vacuous")

    # (3) insertion order explored inside TLC as well (no emission)
    ctx.tlc("MCIgnoreSet", cfg(3 if thorough else 2, False, False), label="c16_orders", timeout=1500)

    # (4) trace validation of random longer histories recorded from the real structure
    nh = 4000 if thorough else 150
    ntr = 16 if thorough else 2
    accepted = events = 0
    import concurrent.futures as cf

    def one(k):
        tr = os.path.join(ctx.scratch, "trace_%d.ndjson" % k)
        p = vlib.run([vh, "ignoreset-record", "-seed", str(ctx.seed * 1000 + k), "-n", str(nh // ntr), "-out", tr,
                      "-tokens", TR_TOK, "-qcodes", TR_QC])
        if p.returncode != 0:
            raise vlib.ToolError("ignoreset-record failed: " + p.stderr)
        info = json.loads(p.stdout)
        r = ctx.tlc("MCIgnoreSetTrace", TRACE_CFG % tr, workers=1, label="c16_trace_%d" % k,
                    allow_violation=True, timeout=3000, jvm="-XX:ParallelGCThreads=2 -Xmx3g")
        return tr, info, r

    with cf.ThreadPoolExecutor(min(ntr, vlib.NCPU)) as ex:
        results = list(ex.map(one, range(ntr)))
    for tr, info, r in results:
        events += info["events"]
        if r["violated"] is None and r["ok"]:
            accepted += info["histories"]
            continue
        if r["violated"] != "POSTCONDITION" or not r["reject"]:
            raise vlib.ToolError("trace spec failed on a model invariant (%s): %s" % (r["violated"], vlib.tail(r["out"], 30)))
        # the trace stops at a Contains event whose logged answer the spec refuses
        import re
        m = re.search(r"line (\d+)", r["reject"])
        ln = int(m.group(1))
        lines = [json.loads(x) for x in open(tr)]
        ev = lines[ln - 1]
        start = max(i for i in range(ln) if lines[i]["ev"] == "Reset")
        ops = [{"g": e["ev"] == "AddModule", "codes": e["codes"], "s": e.get("s", 0), "e": e.get("e", 0)}
               for e in lines[start:ln - 1] if e["ev"] in ("Add", "AddModule")]
        if ev["ev"] != "Contains":
            raise vlib.ToolError("trace rejected at a non-query event: %s" % r["reject"])
        mm = {"ops": ops, "code": ev["code"], "pos": ev["pos"], "expected": not ev["ans"], "observed": ev["ans"]}
        if replay_one(ctx, mm):
            ctx.violation("recorded history: Contains(%s,%d) = %s, rejected by IgnoreSetTrace at line %d"
                          % (ev["code"], ev["pos"], ev["ans"], ln), mm)
        else:
            raise vlib.ToolError("trace rejection did not reproduce: %s" % r["reject"])
    samples.append({"trace_sample": [json.loads(x) for x in open(results[0][0]).readlines()[:8]]})

    return ctx.finish("model_checking", {
        "traces_validated_against_impl": replayed_hist + accepted,
        "samples": samples[:4],
        "evaluations": queries,
        "distinct_nontrivial": nontrivial,
        "rule": "every reachable state of IgnoreSet.tla with <= %d single-token operations (multisets, canonical order) is "
                "replayed into util.IgnoreSet in every distinct insertion order and all 42 queries are compared with the "
                "specification's answer; distinct_nontrivial counts (state, query) pairs answered TRUE by the specification; "
                "plus %d random histories (%d events) recorded from the real structure and accepted by IgnoreSetTrace" % (maxops, accepted, events),
        "exhaustive": True,
        "replayed_states": replayed_states,
        "replayed_histories": replayed_hist,
        "trace_histories_accepted": accepted,
        "trace_events": events,
    }, assumptions=["positions are >= 1 for markers (token.Pos of a real file); 0 is the 'unset' sentinel as in the code",
                    "single-token markers in the exhaustive part, multi-token markers only in the recorded traces"])
