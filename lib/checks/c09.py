"""C09 - code without annotations is never reported (DESIGN.md 5, C09)."""
import json
import os
import random
import re

import corpus
import gen_all
import gen_grammar
import gen_imm
import gen_tonl
import progcheck
import proglib
import vlib
from checks import c01, c02, c03, c15

TCFG = """SPECIFICATION TraceSpec
CONSTANTS
  TraceFile = "%s"
INVARIANTS Sane
POSTCONDITION TraceAccepted
CHECK_DEADLOCK FALSE
"""

CONFIGS = [None, {"scan_tests": "true"}, {"exclude_paths": ""}, {"scan_tests": "true", "exclude_paths": "", "exclude_checks": "FOO"}]


def unannotated(module, sc):
    if module == "Immutable":
        a = sc["ann"]
        return not a["imm"] and not a["ctors"] and not a["noise"]
    if module == "Constructor":
        a = sc["ann"]
        return not a["ctors"] and not a["imm"]
    if module == "TestOnly":
        a = sc["ann"]
        return not (a["type"] or a["func"] or a["meth"]) and not any(c["use"] == "litOTT" for f in sc["files"] for c in f["conts"])
    return False


def nearmiss_programs(ctx, rng, n):
    """All-codes style use sites over a declaring package whose comments only *mention* the keywords."""
    scs, _ = progcheck.tlc_scenarios(ctx, "Grammar", c15.cfg(2), "c09_nearmiss_lines")
    inert = []
    for sc in scs:
        ln = sc["line"]
        if sc["res"]["rec"] != "no":
            continue
        # C09's premise: no doc-comment line *starts with* a lowercase keyword. Keep the listed near-miss classes only.
        if ln["opener"] == "/*" or ln["pre"] in ("text", "slashes", "slashes0", "tabslashes") or ln["kw"] in ("Immutable", "at_space_immutable", "no_at_immutable") \
                or (ln["kw"] in ("immutable", "testonly", "mutable", "packageonly", "constructor", "implements") and ln["rest"] and ln["rest"][0] in ("L", "U", "D", "DA", "DO", "SL", "CO", "AM", "X")):
            text, _parts = gen_grammar.line_text(ln)
            inert.append(text)
    if len(inert) < 20:
        raise vlib.ToolError("too few near-miss lines emitted (%d)" % len(inert))
    progs = []
    ann_re = re.compile(r"^(\s*)// @(immutable|constructor NewT|testonly|packageonly|mutable)\s*$", re.M)
    non_impl = {c for c, _ in gen_all.USES}
    CASED = {"immutable": "// @Immutable is capitalised on purpose: this type is NOT @immutable", "testonly": "// @TestOnly would be wrong here, @testonly is not meant",
             "constructor NewT": "// @Constructor NewT is not a @constructor NewT line", "packageonly": "// @PackageOnly is not @packageonly",
             "mutable": "// @Mutable is not @mutable"}
    for i in range(n):
        if i % 5 == 0:
            # lines that start with the keyword in another letter case and mention the real keyword later
            d = ann_re.sub(lambda m: m.group(1) + CASED[m.group(2)], gen_all.D_SRC)
        else:
            d = ann_re.sub(lambda m: m.group(1) + rng.choice(inert), gen_all.D_SRC)
        if i % 2 == 0:
            # a commented-out declaration, annotations included, directly above the live one (a block comment is never an annotation)
            d = d.replace("type T struct {", "/*\n// @immutable\n// @constructor NewT\ntype Old struct{}\n*/\ntype T struct {", 1)
            d = d.replace("func TF(n int) int { return n }", "/*\n// @testonly\n*/\nfunc TF(n int) int { return n }", 1)
        if i % 3 == 1:
            # a trailing comment of the previous declaration, one empty line above a declaration whose own doc is a directive
            d = d.replace("func TF(n int) int { return n }", "var tuning = 3 // @testonly tuning knob\n\n//go:noinline\nfunc TF(n int) int { return n }", 1)
            d = d.replace("type PT struct{ X int }", "const limit = 8 // @packageonly limit\n\n//go:generate echo PT\ntype PT struct{ X int }", 1)
        if i % 3 == 2:
            # trailing comments of the type specs themselves (single and grouped) and of a method
            d = d.replace("type PT struct{ X int }", "type PT struct{ X int } // @packageonly once the callers are gone", 1)
            d = d.replace("type TT struct{ X int }", "type (\n\tTT struct{ X int } // @testonly\n\tTTaux struct{ X int } // @immutable\n)", 1)
            d = d.replace("type S struct{}", "type S struct{} // @immutable", 1)
        if i % 2 == 1:
            # comments that document a *member* (an interface method), not a top-level declaration
            d = d.replace("\tM(n int) string", "\t// M is the only method.\n\t// @testonly\n\t// @packageonly\n\tM(n int) string", 1)
        if i % 2 == 0:
            # keyword lines documenting *fields* of a struct that has a doc comment of its own
            d = d.replace("\tX  int\n", "\t// @immutable\n\t// @testonly\n\t// @packageonly\n\t// @constructor NewT\n\tX  int\n", 1)
        if i % 4 == 3:
            # package documentation whose lines start with keywords
            d = "// Package d is documented at length.\n// @packageonly restrictions are deliberately absent here.\n// @testonly helpers live elsewhere.\n// @immutable\n" + d
        if i % 3 != 1:
            # a free-floating note (empty lines on both sides) in front of documented declarations
            d = d.replace("// T is immutable and has a constructor.\n", "// Historical note, kept for the record:\n// @immutable\n// @constructor NewT\n\n// T is immutable and has a constructor.\n", 1)
            d = d.replace("// TF is a test helper.\n", "// @testonly\n\n// TF is a test helper.\n", 1)
            d = d.replace("type S struct{}", "// @immutable\n// @packageonly\n\ntype S struct{}", 1)
        dfiles = [{"name": "d/d.go", "src": d}]
        if i % 3 == 0:
            # an earlier file of the package whose function body carries a keyword comment on every line number the other file has
            kws = ["// @testonly", "// @immutable", "// @packageonly", "// @constructor NewT", "// @mutable"]
            body = ["package d", "", "func bodyNotes() {"] + ["\t" + kws[k % len(kws)] for k in range(d.count("\n") + 10)] + ["}", ""]
            dfiles.insert(0, {"name": "d/a_body.go", "src": "\n".join(body)})
        pkgs = [{"path": "m/d", "name": "d", "files": dfiles}]
        for p in ("u", "w"):
            src, _where = gen_all.use_file(p, "%s/a.go" % p, codes=non_impl)
            src += "\nfunc viaIface(i d.I) string { return i.M(1) }\n"
            # trailing comments and comments on local declarations mentioning the keywords
            src = src.replace("\tp.X = 1001", "\tp.X = 1001 // @immutable does not apply here, see @ignore").replace(
                "\tvar v1007 d.T", "\t// @constructor NewT\n\tvar v1007 d.T")
            # annotations on function-local declarations are inert
            src = src.replace("func use(p *d.T, s d.S) {", "func use(p *d.T, s d.S) {\n\t// loc is local.\n\t// @immutable\n\t// @constructor newLoc\n"
                              "\ttype loc struct{ X int }\n\tvar l loc\n\tl.X = 1\n\t_ = loc{X: 2}\n\t_ = new(loc)", 1)
            pkgs.append({"path": "m/" + p, "name": p, "files": [{"name": "%s/a.go" % p, "src": src}]})
        progs.append(({"id": "C09_nm_%d" % i, "pkgs": pkgs}, set(), {"family": "near-miss comments", "declaring_package": d[:1500]}))
    return progs


def run(ctx):
    if ctx.replay:
        obj = json.load(open(ctx.replay))
        if obj.get("kind") == "program":
            return progcheck.replay_file(ctx, ctx.replay)
        print("re-run ./bin/check C09 (the replay file documents the rejected corpus event)")
        return 2
    thorough = ctx.tier == "thorough"
    rng = random.Random(ctx.seed)
    items = []
    # (a) programs of the checker specifications whose annotation record is empty: the model says "no diagnostic"
    for module, cfgfn, build in (("Immutable", c01.cfg, gen_imm.build_imm), ("Constructor", c02.cfg, gen_imm.build_ctor),
                                 ("TestOnly", c03.cfg, gen_tonl.build_tonl)):
        scs, r = progcheck.tlc_scenarios(ctx, module, cfgfn("single"), "c09_%s" % module.lower())
        plain = [sc for sc in scs if unannotated(module, sc)]
        if not plain:
            raise vlib.ToolError("no un-annotated scenario in %s" % module)
        for i, sc in enumerate(progcheck.sample(plain, 6000 if thorough else 700, ctx.seed)):
            if sc["expect"]:
                raise vlib.ToolError("model error: un-annotated scenario with expected diagnostics: %s" % sc)
            prog, exp, _ = build(sc, "C09_%s_%d" % (module, i))
            items.append((prog, set(), {"family": module, "scenario": {k: v for k, v in sc.items() if k != "expect"}}))
    items += nearmiss_programs(ctx, rng, 300 if thorough else 40)
    nrun = 0
    for c in CONFIGS:
        rep = progcheck.Replay(ctx, None)
        rep.check(items, cfg=c, project=lambda ds: proglib.keyset(ds))
        rep.settle(cfg=c, project=lambda ds: proglib.keyset(ds),
                   describe=lambda m: "program without any annotation (%s) under configuration %s" % (m.get("family"), c))
        nrun += rep.run
    nreal = 0
    if not ctx.violations:
        nreal = progcheck.real_drivers(ctx, progcheck.sample(items, 200 if thorough else 30, ctx.seed), None, progcheck.Replay(ctx, None),
                                       project=lambda ds: proglib.keyset(ds))

    # (b) corpus: the standard library (and, thorough, the dependency modules of the repository) through the instrumented build
    std = corpus.go_list(["std"])
    annotated = {p["ImportPath"] for p in std if corpus.has_keyword_lines(p)}
    annotated |= {p["ImportPath"] for p in std if any(i in annotated for i in p.get("Imports", []))}
    runs = [("binary", ()), ] + ([("binary", ("config.scan-tests=true",)), ("vet", ()), ("vet", ("config.scan-tests=true",))] if thorough else [])
    events = [{"ev": "Annotated", "p": p} for p in sorted(annotated)]
    npk = 0
    for drv, args in runs:
        ev, ok, err, so = corpus.run_traced(ctx, vlib.REPO, ["std"], driver=drv, cfg_args=args, timeout=1500)
        if not ev:
            raise vlib.ToolError("no trace recorded over std (%s %s): %s" % (drv, args, err[:300]))
        events.append({"ev": "Reset"})
        events += ev
        events.append({"ev": "Finish", "ok": ok, "detail": err[:300]})
        npk += len({e["p"] for e in ev})
    path = os.path.join(ctx.scratch, "c09_corpus.ndjson")
    with open(path, "w") as f:
        for e in events:
            f.write(json.dumps(e) + "\n")
    r = ctx.tlc("CorpusTrace", TCFG % path, workers=1, label="c09_corpus", allow_violation=True, timeout=2400, jvm="-XX:ParallelGCThreads=2 -Xmx3g -Xss64m")
    accepted = len(events)
    if r["violated"] is not None:
        if r["violated"] != "POSTCONDITION":
            raise vlib.ToolError("CorpusTrace failed: %s" % r["violated"])
        m = re.search(r"line (\d+)", r["reject"] or "")
        ln = int(m.group(1))
        accepted = ln - 1
        ev = events[ln - 1]
        ctx.violation("corpus run over the standard library: CorpusTrace rejects %s (a diagnostic on a package without annotations, an analyzer error, "
                      "or a run that did not finish normally)" % json.dumps(ev)[:400], {"kind": "corpus", "event": ev})
    return ctx.finish("model_checking", {
        "traces_validated_against_impl": nrun + nreal + accepted,
        "samples": [{"family": it[2]["family"], "source": it[0]["pkgs"][0]["files"][0]["src"][:600]} for it in items[-2:]],
        "evaluations": nrun + nreal,
        "distinct_nontrivial": len(items),
        "rule": "(a) TLC: NoAnnNoDiag in Immutable / Constructor / TestOnly; their un-annotated scenarios (every container, statement and nesting with an "
                "empty annotation record) and all-codes programs whose declaring package only mentions the keywords (near-miss lines taken from the "
                "inert class of Grammar.tla: block comments, keyword mid-sentence, other letter case, keyword as prefix of a longer word, trailing and "
                "local-declaration comments) are analysed under four configurations: zero diagnostics of any analyzer; (b) the standard library "
                "(%d package runs) through the instrumented build, every action's End event validated by CorpusTrace (no diagnostics on packages "
                "without keyword lines); distinct_nontrivial = distinct un-annotated programs" % npk,
        "corpus_package_runs": npk,
        "corpus_events": len(events),
        "corpus_packages_outside_premise": sorted(annotated)[:20],
        "exhaustive": False,
    }, assumptions=["a package counts as annotated (outside the premise) if any of its comment lines starts with a keyword, or it imports such a package",
                    "corpus = the Go standard library shipped with the toolchain; dependency modules are added in the thorough tier"])
