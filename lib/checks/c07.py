"""C07 - @ignore suppresses exactly the diagnostics in its scope that match its codes (DESIGN.md 5, C07)."""
import gen_scope
import progcheck
import proglib
import vlib

CFG = """SPECIFICATION Spec
CONSTANTS
  Mode = "%(mode)s"
  Deviations = %(dev)s
  Emit = %(emit)s
INVARIANTS Exact NeverAdds NoMatchIdentity %(emitinv)s
%(live)s
"""


def cfg(mode, emit=True, dev="{}", live=True):
    return CFG % dict(mode=mode, dev=dev, emit="TRUE" if emit else "FALSE", emitinv="EmitInv" if emit else "",
                      live="PROPERTIES Termination" if live else "")


def project_for(kind):
    code = gen_scope.CODE.get(kind, kind)
    return lambda diags: {(d["file"], d["line"], d["code"]) for d in diags if d["code"] == code}


def run(ctx):
    if ctx.replay:
        import json
        obj = json.load(open(ctx.replay))
        return progcheck.replay_file(ctx, ctx.replay, project=project_for(obj["scenario"]["kind"]))
    thorough = ctx.tier == "thorough"
    for dev in ("RangeToNodeStart", "TrailAfterDecl", "OnceConsumesSlot", "FileDocOnly", "LastMarkerOnly", "FuncLineCoversBody", "OnlyFuncDeclBodies", "LineDirAdjusted"):
        r = ctx.tlc("Scope", cfg("quick", emit=False, dev='{"%s"}' % dev, live=False), label="c07_dev_" + dev, allow_violation=True, count=False)
        if r["violated"] != "Exact":
            raise vlib.ToolError("deviation %s does not violate Exact: vacuous" % dev)
    scs, r = progcheck.tlc_scenarios(ctx, "Scope", cfg("all" if thorough else "quick"), "c07_scope", coverage=True)
    zero = [a for a, n in r["cov"].items() if n == 0 and not a.endswith("Finished")]
    if zero:
        raise vlib.ToolError("vacuous actions: %s" % zero)
    # group by kind so that each group is compared on its own code
    total = run_n = nontrivial = nreal = 0
    samples = []
    bykind = {}
    for sc in scs:
        bykind.setdefault(sc["kind"], []).append(sc)
    for kind, group in sorted(bykind.items()):
        rep = progcheck.Replay(ctx, None)
        proj = project_for(kind)
        items = []
        for i, sc in enumerate(group):
            prog, exp, _pos = gen_scope.build_scope(sc, "C07_%s_%d" % (kind, i))
            meta = {k: sc[k] for k in ("kind", "slot", "slot2", "list", "ld", "cls")}
            meta["removed"] = sorted(set(sc["base"]) - set(sc["expect"]))
            meta["moved_in"] = sorted(set(sc["expect"]) - set(sc["base"]))
            items.append((prog, exp, meta))
        rep.check(items, project=proj)
        rep.settle(project=proj, describe=lambda m: "kind %s, comment in slot %s%s (%s) with list %s: the specification removes %s%s"
                   % (m["kind"], m["slot"], (" and " + m["slot2"]) if m.get("slot2", "none") != "none" else "", m["cls"], m["list"], m["removed"], (" and moves the report to %s" % m["moved_in"]) if m["moved_in"] else ""))
        run_n += rep.run
        nontrivial += sum(1 for it in items if it[2]["removed"])
        samples += [s for s in rep.samples if s["scenario"]["removed"]][:1] if len(samples) < 3 else []
        if not ctx.violations:
            nreal += progcheck.real_drivers(ctx, progcheck.sample(items, 150 if thorough else 12, ctx.seed), None, rep, project=proj)
    return ctx.finish("model_checking", {
        "traces_validated_against_impl": run_n + nreal,
        "samples": samples,
        "evaluations": run_n + nreal,
        "distinct_nontrivial": nontrivial,
        "rule": "terminal states of Scope.tla: 12 program kinds (one per non-IMPL code and anchor shape, incl. the once-per-file codes) x 18 comment "
                "slots of the fixed layout (before the package clause, before each declaration, before / trailing every statement line, end of "
                "block, trailing a closing brace and a single-line declaration, other file, no comment) x %d code lists; the program with the "
                "comment is analysed and its diagnostics of the kind's code must equal the specification's set (base minus in-scope-and-matching, "
                "with the once-per-file report moved); distinct_nontrivial = scenarios where the comment removes at least one diagnostic"
                % (12 if thorough else 4),
        "scenarios_emitted_by_tlc": len(scs),
        "replayed_real_binary_and_vet": nreal,
        "exhaustive": True,
    }, assumptions=["a standalone comment as the last thing in a block suppresses nothing before it; whether it reaches a later statement is not generated",
                    "IMPL diagnostics (anchored at type declarations) are covered by C17's suppress-by-own-code replay, not by this layout",
                    "comments are placed before statements and declarations only, never inside expressions"])
