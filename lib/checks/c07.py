"""C07 - @ignore suppresses exactly the diagnostics in its scope that match its codes (DESIGN.md 5, C07)."""
import gen_scope
import progcheck
import proglib
import vlib

CFG = """SPECIFICATION Spec
CONSTANTS
  Mode = "%(mode)s"
  Deviations = %(dev)s
  Emit = %(emit)s
INVARIANTS Exact NeverAdds NoMatchIdentity %(emitinv)s
%(live)s
"""


def cfg(mode, emit=True, dev="{}", live=True):
    return CFG % dict(mode=mode, dev=dev, emit="TRUE" if emit else "FALSE", emitinv="EmitInv" if emit else "",
                      live="PROPERTIES Termination" if live else "")


def project_for(kind):
    code = gen_scope.CODE.get(kind, kind)
    return lambda diags: {(d["file"], d["line"], d["code"]) for d in diags if d["code"] == code}


SAMEPOS_D = """package d

// I is a contract.
type I interface {
	M()
}

type S struct{}

// MkS is restricted.
// @packageonly
func MkS() S { return S{} }

// PM is restricted.
// @packageonly
func (s S) PM(n int) int { return n }

// MkTS is a test helper.
// @testonly
func MkTS() S { return S{} }

// TM is a test helper.
// @testonly
func (s S) TM(n int) int { return n }
"""


def same_position_programs():
    """(program, expected keys in package u): for each pair of codes reported at one position, a directive naming one of them."""
    out = []
    cases = [("IMPL", "IMPL01", "IMPL03"), ("PKGO", "PKGO02", "PKGO03"), ("TONL", "TONL02", "TONL03")]
    for cat, c1, c2 in cases:
        for ign in (None, c1, c2, cat):
            ls = ["package u", "", 'import "m/d"', ""]
            exp = set()
            if cat == "IMPL":
                if ign:
                    ls.append("// @ignore " + ign)
                ls += ["// A claims two interfaces and implements neither.", "// @implements nope.I", "// @implements d.I", "type A struct{}"]
                line = len(ls)
                ls += ["", "var _ d.S", ""]
            else:
                call = "d.MkS().PM(1)" if cat == "PKGO" else "d.MkTS().TM(1)"
                ls += ["func f() {", "\t_ = %s%s" % (call, (" // @ignore " + ign) if ign else "")]
                line = len(ls)
                ls += ["}", ""]
            for c in (c1, c2):
                if ign not in (c, cat):
                    exp.add(("u/u.go", line, c))
            out.append(({"id": "C07_samepos_%s_%s" % (cat, ign or "none"),
                         "pkgs": [{"path": "m/d", "name": "d", "files": [{"name": "d/d.go", "src": SAMEPOS_D}]},
                                  {"path": "m/u", "name": "u", "files": [{"name": "u/u.go", "src": "\n".join(ls) + "\n"}]}]}, exp))
    return out


def run(ctx):
    if ctx.replay:
        import json
        obj = json.load(open(ctx.replay))
        return progcheck.replay_file(ctx, ctx.replay, project=project_for(obj["scenario"]["kind"]))
    thorough = ctx.tier == "thorough"
    for dev in ("PrefixMatch", "RangeToNodeStart", "TrailAfterDecl", "OnceConsumesSlot", "FileDocOnly", "LastMarkerOnly", "FuncLineCoversBody", "OnlyFuncDeclBodies", "LineDirAdjusted"):
        r = ctx.tlc("Scope", cfg("quick", emit=False, dev='{"%s"}' % dev, live=False), label="c07_dev_" + dev, allow_violation=True, count=False)
        if r["violated"] != "Exact":
            raise vlib.ToolError("deviation %s does not violate Exact: vacuous" % dev)
    scs, r = progcheck.tlc_scenarios(ctx, "Scope", cfg("all" if thorough else "quick"), "c07_scope", coverage=True)
    zero = [a for a, n in r["cov"].items() if n == 0 and not a.endswith("Finished")]
    if zero:
        raise vlib.ToolError("vacuous actions: %s" % zero)
    # group by kind so that each group is compared on its own code
    total = run_n = nontrivial = nreal = 0
    samples = []
    bykind = {}
    for sc in scs:
        bykind.setdefault(sc["kind"], []).append(sc)
    for kind, group in sorted(bykind.items()):
        rep = progcheck.Replay(ctx, None)
        proj = project_for(kind)
        items = []
        for i, sc in enumerate(group):
            prog, exp, _pos = gen_scope.build_scope(sc, "C07_%s_%d" % (kind, i))
            meta = {k: sc[k] for k in ("kind", "slot", "slot2", "list", "ld", "cls")}
            meta["removed"] = sorted(set(sc["base"]) - set(sc["expect"]))
            meta["moved_in"] = sorted(set(sc["expect"]) - set(sc["base"]))
            items.append((prog, exp, meta))
        rep.check(items, project=proj)
        rep.settle(project=proj, describe=lambda m: "kind %s, comment in slot %s%s (%s) with list %s: the specification removes %s%s"
                   % (m["kind"], m["slot"], (" and " + m["slot2"]) if m.get("slot2", "none") != "none" else "", m["cls"], m["list"], m["removed"], (" and moves the report to %s" % m["moved_in"]) if m["moved_in"] else ""))
        run_n += rep.run
        nontrivial += sum(1 for it in items if it[2]["removed"])
        samples += [s for s in rep.samples if s["scenario"]["removed"]][:1] if len(samples) < 3 else []
        if not ctx.violations:
            nreal += progcheck.real_drivers(ctx, progcheck.sample(items, 150 if thorough else 12, ctx.seed), None, rep, project=proj)
    # two diagnostics with different codes at one position (two failing @implements on a type; a chained call): a directive that
    # names one of the codes removes exactly that one (L1: a directive removes the diagnostics that match one of its codes)
    samepos = same_position_programs()
    res = proglib.run_vh(ctx, [p for p, _e in samepos])
    for prog, exp in samepos:
        r = res[prog["id"]]
        run_n += 1
        if r.get("err"):
            raise vlib.ToolError("same-position program does not load: %s" % r["err"][:300])
        got = None if r.get("fail") else {k for k in proglib.keyset(r["diags"]) if k[0].startswith("u/")}
        if got != exp and len(ctx.violations) < 3:
            ctx.violation("two diagnostics at one position, directive naming one code (%s): expected %s, observed %s"
                          % (prog["id"], sorted(exp), sorted(got) if got is not None else r.get("fail", "")[:200]),
                          {"kind": "program", "program": prog, "expected": sorted(exp), "observed": sorted(got or []), "cats": []})
    return ctx.finish("model_checking", {
        "traces_validated_against_impl": run_n + nreal,
        "samples": samples,
        "evaluations": run_n + nreal,
        "distinct_nontrivial": nontrivial,
        "rule": "terminal states of Scope.tla: 12 program kinds (one per non-IMPL code and anchor shape, incl. the once-per-file codes) x 18 comment "
                "slots of the fixed layout (before the package clause, before each declaration, before / trailing every statement line, end of "
                "block, trailing a closing brace and a single-line declaration, other file, no comment) x %d code lists; the program with the "
                "comment is analysed and its diagnostics of the kind's code must equal the specification's set (base minus in-scope-and-matching, "
                "with the once-per-file report moved); distinct_nontrivial = scenarios where the comment removes at least one diagnostic"
                % (12 if thorough else 4),
        "scenarios_emitted_by_tlc": len(scs),
        "replayed_real_binary_and_vet": nreal,
        "exhaustive": True,
    }, assumptions=["a standalone comment as the last thing in a block suppresses nothing before it; whether it reaches a later statement is not generated",
                    "IMPL diagnostics (anchored at type declarations) are covered by C17's suppress-by-own-code replay, not by this layout",
                    "comments are placed before statements and declarations only, never inside expressions"])
