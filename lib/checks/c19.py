"""C19 - rendered excerpt: right line, caret under the reported column (DESIGN.md 5, C19)."""
import json
import os
import subprocess

import vlib

CFG = """SPECIFICATION Spec
CONSTANTS
  L = %(L)d
  Mode = "%(cases)s"
  Deviations = %(dev)s
  Emit = %(emit)s
INVARIANTS CaretOK LenOK WindowOK Degrades %(emitinv)s
%(live)s
"""


def cfg(L, cases, emit=False, dev="{}", live=True):
    return CFG % dict(L=L, cases=cases, dev=dev, emit="TRUE" if emit else "FALSE",
                      emitinv="EmitInv" if emit else "", live="PROPERTY Termination" if live else "")


def run(ctx):
    vh = ctx.vh()
    if ctx.replay and json.load(open(ctx.replay)).get("kind") == "reporter_sequence":
        mm = json.load(open(ctx.replay))["scenario"]
        # the specification's expectation for this history is recomputed by TLC's formula: window per report
        def win(l, n, readable):
            return [0, 0] if (not readable or n == 0 or l - 2 > n) else [max(l - 2, 1), min(l + 1, n)]
        hist = []
        reads = {"a": 0, "b": 0}
        for h in mm["history"]:
            n, readable = (mm["n"], True) if h["f"] == "a" else (2, mm["bReadable"])
            lo, hi = win(h["l"], n, readable)
            hist.append({"f": h["f"], "l": h["l"], "c": h.get("c", "head"), "lo": lo, "hi": hi})
            reads[h["f"]] = (reads[h["f"]] + 1) if not readable else 1
        line = "@E " + json.dumps({"n": mm["n"], "bReadable": mm["bReadable"], "hist": hist, "readsA": reads["a"], "readsB": reads["b"]})
        p = subprocess.run([vh, "reporter-seq-replay"], input=line + "\n", stdout=subprocess.PIPE, stderr=subprocess.PIPE, text=True)
        print(p.stdout.strip())
        if p.returncode == 1:
            print("VIOLATION property=C19 replay=%s" % ctx.replay)
        return p.returncode
    if ctx.replay:
        r = vlib.run([vh, "excerpt-replay", "-replay", ctx.replay])
        print(r.stdout.strip())
        if r.returncode == 1:
            print("VIOLATION property=C19 replay=%s" % ctx.replay)
        return r.returncode
    thorough = ctx.tier == "thorough"

    # (1) the model itself: L2 |= L1 for small display limits, all lengths / columns / windows, with termination
    for L in ((8, 9, 10, 11, 12) if thorough else (9, 10)):
        ctx.tlc("Excerpt", cfg(L, "trunc"), label="c19_small_L%d" % L, coverage=(L == 10))
        ctx.tlc("Excerpt", cfg(L, "window"), label="c19_window_L%d" % L)
    zero = [a for a, n in ctx.coverage.get("c19_small_L10", {}).items() if n == 0]
    if zero:
        raise vlib.ToolError("vacuous actions: %s" % zero)
    # non-vacuity: with the pinned code's boundary comparison the model violates CaretOK
    r = ctx.tlc("Excerpt", cfg(10, "trunc", dev='{"CaretBoundary"}', live=False), label="c19_dev",
                allow_violation=True, count=False)
    if r["violated"] != "CaretOK":
        raise vlib.ToolError("CaretOK is not violated under the CaretBoundary deviation: the invariant is vacuous")

    # (1b) the same arithmetic for *every* display limit >= 7, line length and column (Apalache, linear integer arithmetic)
    if not ctx.apalache("ExcerptAll", "Init", "Inv", 0, timeout=900):
        raise vlib.ToolError("ExcerptAll: CaretOK / LenOK / Shown fail for some (l, n, c): model error")
    import re as _re
    bad = open(os.path.join(ctx.specdir, "ExcerptAll.tla")).read().replace("FirstRegime == Pos0 < l - 3", "FirstRegime == Pos0 <= l - 3").replace(
        "MODULE ExcerptAll ", "MODULE ExcerptAllDev ")
    open(os.path.join(ctx.specdir, "ExcerptAllDev.tla"), "w").write(bad)
    if ctx.apalache("ExcerptAllDev", "Init", "Inv", 0, timeout=900):
        raise vlib.ToolError("ExcerptAll holds under the CaretBoundary deviation as well: vacuous")

    # (2) at the real display limit: emit and replay through reporting.Reporter
    sets = ["window", "trunc" if thorough else "boundary"]
    cases = execs = shown = trunc = 0
    samples = []
    for cs in sets:
        r = ctx.tlc("Excerpt", cfg(200, cs, emit=True, live=False), label="c19_L200_" + cs, collect_emit=False, timeout=2400)
        with open(r["out"]) as f:
            p = subprocess.run([vh, "excerpt-replay"], stdin=f, stdout=subprocess.PIPE, stderr=subprocess.PIPE, text=True)
        if p.returncode not in (0, 1):
            raise vlib.ToolError("excerpt-replay failed: " + p.stderr[-2000:])
        res = json.loads(p.stdout)
        if res["cases"] != r.get("n_emit", -1) or res["cases"] == 0:
            raise vlib.ToolError("replayed %d cases, TLC emitted %s" % (res["cases"], r.get("n_emit")))
        cases += res["cases"]
        execs += res["executions"]
        shown += res["shown"]
        trunc += res["truncated"]
        samples += res["samples"] or []
        seen = set()
        for mm in res["mismatches"] or []:
            key = (tuple(mm["bad"]), mm["Case"]["Col"] - 1 == 197)
            if key in seen or len(ctx.violations) >= 3:
                continue
            seen.add(key)
            p1 = os.path.join(ctx.scratch, "mm.json")
            json.dump({"Case": mm["Case"], "Variant": mm["Variant"]}, open(p1, "w"))
            rr = vlib.run([vh, "excerpt-replay", "-replay", p1])
            if rr.returncode != 1:
                raise vlib.ToolError("mismatch did not reproduce: %s" % mm)
            c = mm["Case"]
            o = mm["observed"]
            ctx.violation("line of %d bytes, column %d (%s content): %s differ - expected [pre=%s start=%d end=%d post=%s caret=%d], "
                          "observed [pre=%s start=%d end=%d post=%s caret=%d]%s"
                          % (c["Len"], c["Col"], mm["Variant"], ",".join(mm["bad"]), c["Pre"], c["Start"], c["End"], c["Post"], c["Caret"],
                             o["pre"], o["start"], o["end"], o["post"], o["caret"], (" " + o["failed"]) if o.get("failed") else ""),
                          {"Case": mm["Case"], "Variant": mm["Variant"], "observed": o})
        os.remove(r["out"])

    # (3) one Reporter, many diagnostics: the line cache (ReporterCache.tla) - every history of <= 3 (quick) / 4 (thorough) reports
    rcfg = ("SPECIFICATION Spec\nCONSTANTS\n  MaxLen = 5\n  MaxReports = %d\n  Deviations = %s\n  Emit = %s\n"
            "INVARIANTS Stateless TruncByOwnColumn ReadOnce Retry CacheFaithful EmitInv\nCHECK_DEADLOCK FALSE\n")
    r = ctx.tlc("ReporterCache", rcfg % (2, '{"PrefixCache"}', "FALSE"), label="c19_cache_dev", allow_violation=True, count=False, collect_emit=False)
    if r["violated"] is None:
        raise vlib.ToolError("deviation PrefixCache violates nothing in ReporterCache: vacuous")
    r = ctx.tlc("ReporterCache", rcfg % (2, '{"TruncCache"}', "FALSE"), label="c19_cache_dev2", allow_violation=True, count=False, collect_emit=False)
    if r["violated"] != "TruncByOwnColumn":
        raise vlib.ToolError("deviation TruncCache does not violate TruncByOwnColumn: vacuous")
    r = ctx.tlc("ReporterCache", rcfg % (4 if thorough else 3, "{}", "TRUE"), label="c19_cache", collect_emit=False, timeout=2400)
    with open(r["out"]) as f:
        p = subprocess.run([vh, "reporter-seq-replay"], stdin=f, stdout=subprocess.PIPE, stderr=subprocess.PIPE, text=True)
    if p.returncode not in (0, 1):
        raise vlib.ToolError("reporter-seq-replay failed: " + (p.stderr or p.stdout)[-2000:])
    seq = json.loads(p.stdout)
    if seq["histories"] != r["distinct"]:
        raise vlib.ToolError("replayed %d histories, TLC found %d states" % (seq["histories"], r["distinct"]))
    for mm in (seq["mismatches"] or []):
        if mm["what"].startswith("ReadFile calls"):
            ctx.note("one Reporter, diagnostics %s: %s expected %s, observed %s" % ([(h["f"], h["l"]) for h in mm["history"]], mm["what"], mm["expected"], mm["observed"]))
        elif len(ctx.violations) < 3:
            ctx.violation("one Reporter, diagnostics %s on a file of %d lines (b readable: %s): report %d, %s: expected %s, observed %s"
                          % ([(h["f"], h["l"]) for h in mm["history"]], mm["n"], mm["bReadable"], mm["report"], mm["what"], mm["expected"], str(mm["observed"])[:300]),
                          {"kind": "reporter_sequence", "scenario": mm})
    execs += seq["renders"]
    os.remove(r["out"])

    return ctx.finish("model_checking", {
        "reporter_histories_replayed": seq["histories"],
        "traces_validated_against_impl": execs,
        "samples": samples[:2],
        "evaluations": execs,
        "distinct_nontrivial": trunc,
        "rule": "terminal states of Excerpt.tla at L=200 (%s) are executed through reporting.Reporter.ReportViolation with a synthetic pass "
                "in three line-content variants (ascii, tabs, 2-byte runes); the shown byte window, ellipses, caret column, caret-line tabs, "
                "context line numbers and help line are compared with the specification; every history of ReporterCache.tla (one Reporter rendering "
                "up to 3-4 diagnostics on two files, one possibly unreadable or shorter than the reported line) is replayed: window, text of the context "
                "lines, byte-identity with a fresh Reporter's message, number of ReadFile calls; distinct_nontrivial = executions whose line is truncated"
                % ("all lengths 0..600 x all columns" if thorough else "every regime boundary +-3"),
        "exhaustive": thorough,
        "cases": cases,
        "executions_with_excerpt": shown,
    }, assumptions=["columns are byte offsets (token.Position.Column)",
                    "a diagnostic line beyond the end of the file as read back from disk: only 'no line numbered like the diagnostic, no caret, no failure' is required"])
