"""C02 - @constructor enforced exactly (DESIGN.md 5, C02)."""
import gen_imm
from checks import c01

CFG = """SPECIFICATION Spec
CONSTANTS
  Mode = "%(mode)s"
  Deviations = %(dev)s
  Emit = %(emit)s
INVARIANTS Exact NoAnnNoDiag %(emitinv)s
PROPERTIES ContextScoped Stable %(live)s
"""


def cfg(mode, emit=True, dev="{}", live=True):
    return CFG % dict(mode=mode, dev=dev, emit="TRUE" if emit else "FALSE", emitinv="EmitInv" if emit else "",
                      live="Termination" if live else "")


def line_directive_program():
    """Instantiations in a section of a file that a `//line` directive attributes to a file that does not exist (generated code):
    the diagnostic is reported at the attributed position, with or without a source excerpt."""
    import gen_all
    u = ["package u", "", 'import "m/d"', "", "func plain() {", "\t_ = d.T{X: 1}", "}", "", "//line parser.y:40", "func generated() {",
         "\t_ = d.T{X: 2}", "\t_ = new(d.T)", "\tvar v d.T", "\t_ = v", "}", ""]
    exp = {("u/gen.go", 6, "CTOR01"), ("u/parser.y", 41, "CTOR01"), ("u/parser.y", 42, "CTOR02"), ("u/parser.y", 43, "CTOR03")}
    prog = {"id": "C02_linedir", "pkgs": [{"path": "m/d", "name": "d", "files": [{"name": "d/d.go", "src": gen_all.D_SRC}]},
                                         {"path": "m/u", "name": "u", "files": [{"name": "u/gen.go", "src": "\n".join(u)}]}]}
    return (prog, exp, {"family": "instantiations below a //line directive naming a file that cannot be read"})


def run(ctx):
    return c01.run_family(
        ctx, "Constructor", gen_imm.build_ctor, {"CTOR"}, cfg,
        modes_quick=[("single", 6000), ("seq2", None), ("spell", None)],
        modes_thorough=[("single", None), ("seq2", None), ("seq3", None), ("spell", None)],
        devs=[("LeakWalkState", "seq2", ("Exact",)), ("CtorAnyPkg", "single0", ("Exact",)), ("CtorByBareName", "single0", ("Exact",)), ("NoUnalias", "spell", ("Exact",)), ("CtorAnyType", "single0", ("Exact",)), ("GroupDocLeaks", "single0", ("Exact",)), ("VarFlagClobbered", "single0", ("Exact",)), ("PruneReported", "single0", ("Exact",)), ("LastCtorLineOnly", "single", ("Exact",)), ("BareNameCache", "seq2", ("Exact",)), ("PtrAliasIsValue", "spell", ("Exact",))],
        registry=True,
        extra_real=[line_directive_program()],
        assumptions=["fragment: non-generic defined types, direct imports, one candidate statement per declaration",
                     "trailing comma in the constructor list and methods named like a constructor are not generated (unspecified)",
                     "diagnostics are compared as (file, line, code) sets of the CTOR category"],
        rule="every terminal state of Constructor.tla (one abstract program + the diagnostics the property demands) is concretised into a "
             "multi-package Go program and analysed by the real analyzers (in-process checker driver with gob round trip of facts; a sample "
             "also through the unmodified binary and go vet -vettool); missing, extra, mis-coded and mis-placed CTOR diagnostics are mismatches; "
             "the constructor index itself (util.TypeAssociationRegistry, with util.TypesMap) is replayed from every history of Registry.tla")
