"""C11 - results are deterministic and independent of the analysis schedule (DESIGN.md 5, C11)."""
import concurrent.futures as cf
import itertools
import json
import os
import random
import subprocess

import gen_all
import gen_xpkg
import progcheck
import proglib
import vlib
from checks import c06

REAL = {"config": "config", "annot": "annotationreader", "ign": "ignorereader", "impl": "implementschecker",
        "imm": "immutabilitychecker", "ctor": "constructorchecker", "tonl": "testonlychecker", "pkgo": "packageonlychecker"}

SIMCFG = """SPECIFICATION Spec
CONSTANTS
  Mode = "scheds"
  Deviations = {}
  Emit = TRUE
  Shape = "%s"
  Driver = "inproc"
INVARIANTS SameDiags ReadsOK FactsBeforeUse ExportBeforeReturn EmitInv
"""

TVARIANT = {
    "lib/a.go": "package lib\n\n// T is immutable.\n// @immutable\ntype T struct{ X int }\n",
    "lib/a_test.go": "package lib\n\n// TH is a test helper type declared in an in-package test file.\n// @immutable\ntype TH struct{ X int }\n\n"
                     "// HelperOnly is restricted to lib.\n// @packageonly\nfunc HelperOnly() {}\n",
    "lib/b_test.go": "package lib_test\n\nimport \"m/lib\"\n\nfunc use(h *lib.TH) {\n\th.X = 1\n\tlib.HelperOnly()\n}\n",
    "app/app.go": "package app\n\nimport \"m/lib\"\n\nfunc Use(t *lib.T) {\n\tt.X = 2\n}\n",
    "zapp/zapp.go": "package zapp\n\nimport \"m/lib\"\n\nfunc Use(t *lib.T) {\n\tt.X = 3\n}\n",
    # two importers with the same package name (allowed by bare name) and a third one that is not allowed
    "core/core.go": "package core\n\n// Reset is for service packages.\n// @packageonly svc\nfunc Reset() {}\n\n// K is for service packages.\n// @packageonly svc, m/zo\ntype K struct{ X int }\n",
    "x/svc/s.go": "package svc\n\nimport \"m/core\"\n\nfunc Run() {\n\tcore.Reset()\n\t_ = core.K{X: 1}\n}\n",
    "y/svc/s.go": "package svc\n\nimport \"m/core\"\n\nfunc Run() {\n\tcore.Reset()\n\t_ = core.K{X: 2}\n}\n",
    "zo/o.go": "package zo\n\nimport \"m/core\"\n\nfunc Run() {\n\tcore.Reset()\n\t_ = core.K{X: 3}\n}\n",
    # generated code: a //line directive maps a diagnostic into a file that cannot be read (message without excerpt), next to
    # ordinary diagnostics rendered later in the same process
    "gen/g.go": "package gen\n\nimport \"m/lib\"\n\n//line grammar.y:40\nfunc Use(t *lib.T) {\n\tt.X = 5\n}\n",
    # several files of one package with @ignore comments for the same code, a covered violation in each, one uncovered at the end
    "multi/f1.go": "package multi\n\nimport \"m/lib\"\n\nfunc f1(t *lib.T) {\n\tt.X = 11 // @ignore IMM01\n}\n",
    "multi/f2.go": "package multi\n\nimport \"m/lib\"\n\nfunc f2(t *lib.T) {\n\t// @ignore IMM01\n\tt.X = 12\n}\n",
    "multi/f3.go": "package multi\n\nimport \"m/lib\"\n\n// @ignore IMM01\nfunc f3(t *lib.T) {\n\tt.X = 13\n}\n",
    "multi/f4.go": "package multi\n\nimport \"m/lib\"\n\nfunc f4(t *lib.T) {\n\tt.X = 14 // @ignore IMM01\n}\n",
    "multi/f5.go": "package multi\n\nimport \"m/lib\"\n\nfunc f5(t *lib.T) {\n\tt.X = 15 // @ignore IMM01\n\tt.X = 16\n}\n",
    # a second package with @ignore comments (suppressed and unsuppressed writes)
    "multi2/g.go": "package multi2\n\nimport \"m/lib\"\n\nfunc g1(t *lib.T) {\n\tt.X = 21 // @ignore IMM01\n\tt.X = 22\n}\n\n// @ignore IMM\nfunc g2(t *lib.T) {\n\tt.X = 23\n}\n",
    "other/o.go": "package other\n\n// O is unrelated.\n// @immutable\ntype O struct{ X int }\n\nfunc f(o *O) {\n\to.X = 4\n}\n",
}


def schedules(ctx, shape, n):
    r = ctx.tlc("Pipeline", SIMCFG % shape, workers=4, simulate="num=%d" % max(1, n // 4), depth=60, label="c11_sim_" + shape, timeout=300)
    out = []
    seen = set()
    for e in r["emit"]:
        if e in seen:
            continue
        seen.add(e)
        out.append(json.loads(e))
    if not out:
        raise vlib.ToolError("simulation emitted no schedule")
    return out


def by_pkg(diags):
    out = {}
    for d in diags:
        out.setdefault(d["file"].split("/")[0], set()).add((d["file"], d["line"], d["col"], d["analyzer"], d["msg"]))
    return out


def run(ctx):
    if ctx.replay:
        obj = json.load(open(ctx.replay))
        if obj.get("kind") == "program":
            return progcheck.replay_file(ctx, ctx.replay)
        print("re-run ./bin/check C11 (the replay file documents the failing schedule / run set)")
        return 2
    thorough = ctx.tier == "thorough"
    rng = random.Random(ctx.seed)
    # (0) the model: every interleaving gives the same diagnostics; the configuration cache is written once
    ctx.tlc("Pipeline", c06.pcfg("scheds", "diamond", "inproc", live=True), label="c11_pipe_scheds", coverage=True, timeout=1500)
    if thorough:
        ctx.tlc("Pipeline", c06.pcfg("scheds", "chain", "vet"), label="c11_pipe_scheds_vet", timeout=1500)
    r = ctx.tlc("Pipeline", c06.pcfg("progs", "chain", "inproc", dev='{"TransitiveFacts"}'), label="c11_dev", allow_violation=True, count=False)
    if r["violated"] is None:
        raise vlib.ToolError("the deviation does not violate the pipeline invariants: vacuous")

    # (a) schedule replay: TLC-generated interleavings forced onto the real parallel driver (race-enabled harness)
    race = ctx.vh_race()
    nsched = 400 if thorough else 48
    progs = []
    for shape in ("chain", "diamond"):
        v = gen_xpkg.variant(rng)
        v["shape"] = shape
        prog, exp = gen_xpkg.build(v, "C11_" + shape)
        for i, sc in enumerate(schedules(ctx, shape, nsched // 2)):
            named = ["m/" + p for p in sorted(sc["named"])]
            toks = ["%s:%s@m/%s" % (h[0], REAL[h[1]], h[2]) for h in sc["hist"]]
            p2 = dict(prog, id="%s_%d" % (prog["id"], i), named=named, schedule=toks)
            progs.append((p2, c06.restrict(exp, named), {"shape": shape, "named": named, "schedule": toks, "variant": v}))
    trace = os.path.join(ctx.scratch, "c11_sched.ndjson")
    stderr = []
    res = proglib.run_vh(ctx, [p[0] for p in progs], exe=race, trace=trace, stderr_to=stderr, timeout=1500)
    nrun = nontrivial = 0
    samples = []
    for prog, exp, meta in progs:
        r = res[prog["id"]]
        nrun += 1
        got = proglib.keyset(r["diags"])
        if r.get("err"):
            raise vlib.ToolError("schedule replay failed for %s: %s" % (prog["id"], r["err"]))
        if r.get("fail") or got != exp:
            rr = proglib.run_vh(ctx, [prog], exe=race, trace=os.path.join(ctx.scratch, "again.ndjson"))[prog["id"]]
            got2 = proglib.keyset(rr["diags"])
            if not rr.get("fail") and got2 == exp:
                raise vlib.ToolError("schedule-replay mismatch did not reproduce: %s" % prog["id"])
            if len(ctx.violations) < 3:
                ctx.violation("under the schedule %s... (named %s) the diagnostics differ: missing %s, unexpected %s %s"
                              % (meta["schedule"][:6], meta["named"], sorted(exp - got2), sorted(got2 - exp), (rr.get("fail") or "")[:200]),
                              {"kind": "program", "program": prog, "expected": sorted(exp), "observed": sorted(got2), "cats": [], "scenario": meta})
        elif len(samples) < 2:
            samples.append({"schedule_prefix": meta["schedule"][:10], "named": meta["named"], "diagnostics": len(exp)})
        nontrivial += 1 if exp else 0
    if any("DATA RACE" in s for s in stderr):
        txt = [s for s in stderr if "DATA RACE" in s][0]
        ctx.violation("the race detector reports a data race while replaying TLC-generated schedules: " + txt[txt.index("DATA RACE"):][:700].replace("\n", " | "),
                      {"kind": "race", "report": txt[-6000:]})
    # the recorded schedule traces must be behaviours of the pipeline specification
    if os.path.exists(trace) and not ctx.violations:
        rt = ctx.tlc("PipelineTrace", c06.TCFG % trace, workers=1, label="c11_trace", allow_violation=True, timeout=1800, jvm="-XX:ParallelGCThreads=2 -Xmx3g")
        if rt["violated"] is not None:
            if rt["violated"] != "POSTCONDITION":
                raise vlib.ToolError("PipelineTrace failed on an invariant: %s" % rt["violated"])
            runi, line = c06.locate_rejected(trace, rt["reject"])
            ctx.violation("PipelineTrace rejects a recorded schedule at event %s" % (line or "")[:300], {"kind": "trace", "rejected_event": line})

    # (b) parallel stress on the race-enabled harness: many programs analysed concurrently, twice, identical results
    stress = []
    # many independent packages that claim different imported interfaces: concurrent implementschecker passes over a shared dependency
    from checks import c10
    ad = c10.generated_programs()[-1]
    stress.append((ad, set()))
    for i in range(96 if thorough else 32):
        v = gen_xpkg.variant(rng)
        prog, exp = gen_xpkg.build(v, "C11_st_%d" % i)
        stress.append((prog, exp))
    outs = []
    for rep in range(2):
        stderr = []
        res = proglib.run_vh(ctx, [p[0] for p in stress], exe=race, stderr_to=stderr, jobs=16, timeout=1500)
        outs.append({pid: sorted((d["file"], d["line"], d["col"], d["msg"]) for d in r["diags"]) for pid, r in res.items()})
        for prog, exp in stress:
            r = res[prog["id"]]
            nrun += 1
            if (r.get("fail") or proglib.keyset(r["diags"]) != exp) and len(ctx.violations) < 3:
                rr = proglib.run_vh(ctx, [prog], exe=race)[prog["id"]]
                if rr.get("fail") or proglib.keyset(rr["diags"]) != exp:
                    ctx.violation("parallel analysis: expected %d diagnostics, observed %d %s" % (len(exp), len(rr["diags"]), (rr.get("fail") or "")[:200]),
                                  {"kind": "program", "program": prog, "expected": sorted(exp), "observed": sorted(proglib.keyset(rr["diags"])), "cats": []})
                else:
                    ctx.violation("a program analysed concurrently with others gives different diagnostics than alone (missing %s, unexpected %s): "
                                  "analysis results depend on what else runs in the process"
                                  % (sorted(exp - proglib.keyset(r["diags"]))[:4], sorted(proglib.keyset(r["diags"]) - exp)[:4]),
                                  {"kind": "program", "program": prog, "expected": sorted(exp), "observed_in_batch": sorted(proglib.keyset(r["diags"])), "cats": [],
                                   "note": "reproduces only when analysed concurrently with the other programs of the batch"})
        if any("DATA RACE" in s for s in stderr) and not any(v[0].startswith("the race detector") for v in ctx.violations):
            txt = [s for s in stderr if "DATA RACE" in s][0]
            ctx.violation("the race detector reports a data race between concurrently running passes: " + txt[txt.index("DATA RACE"):][:700].replace("\n", " | "),
                          {"kind": "race", "report": txt[-6000:]})
    if outs[0] != outs[1] and len(ctx.violations) < 3:
        diff = [k for k in outs[0] if outs[0][k] != outs[1].get(k)]
        ctx.violation("two identical parallel runs produced different diagnostics for %s" % diff[:3], {"kind": "nondeterminism", "programs": diff[:10]})

    # (b2) position bases: the drivers parse the files of a package concurrently, so a later file of the package may get the lower
    # position base.  Programs with `@ignore` comments in both files of the using package (Scope.tla scenarios with two comments)
    # analysed with the files added to the FileSet in reverse order must give what the specification says.
    import gen_scope
    from checks import c07
    scs, _r = progcheck.tlc_scenarios(ctx, "Scope", c07.cfg("quick"), "c11_scope")
    two = [sc for sc in scs if not sc.get("ld") and sc.get("slot2", "none") != "none" and sc["slot"] in ("G0", "D4", "S41", "T41", "D5", "TD5", "TF4")]
    if not two:
        raise vlib.ToolError("no Scope scenario with comments in both files")
    items = []
    for i, sc in enumerate(progcheck.sample(two, 1500 if thorough else 300, ctx.seed)):
        prog, exp, _pos = gen_scope.build_scope(sc, "C11_bases_%d" % i)
        items.append((prog, exp, sc))
    res = proglib.run_vh(ctx, [it[0] for it in items], revbases=True)
    for prog, exp, sc in items:
        r = res[prog["id"]]
        nrun += 1
        code = gen_scope.CODE.get(sc["kind"], sc["kind"])
        got = None if r.get("fail") or r.get("err") else {k for k in proglib.keyset(r["diags"]) if k[2] == code}
        want = {k for k in exp if k[2] == code}
        if got != want and len(ctx.violations) < 3:
            r1 = proglib.run_vh(ctx, [prog], revbases=True)[prog["id"]]
            r0 = proglib.run_vh(ctx, [prog])[prog["id"]]
            g1 = None if r1.get("fail") else {k for k in proglib.keyset(r1["diags"]) if k[2] == code}
            g0 = None if r0.get("fail") else {k for k in proglib.keyset(r0["diags"]) if k[2] == code}
            if g1 == want:
                raise vlib.ToolError("base-order mismatch did not reproduce: %s" % {k: sc[k] for k in ("kind", "slot", "slot2", "list")})
            ctx.violation("files of the package added to the FileSet in reverse order (a possible outcome of concurrent parsing): %s comment in %s and %s, "
                          "expected %s, observed %s; with ascending bases: %s" % (sc["kind"], sc["slot"], sc["slot2"], sorted(want), sorted(g1) if g1 is not None else r1.get("fail", "")[:200],
                                                                               sorted(g0) if g0 is not None else "failed"),
                          {"kind": "program", "program": prog, "expected": sorted(want), "observed": sorted(g1 or []), "cats": [], "revbases": True,
                           "scenario": {k: sc[k] for k in ("kind", "slot", "slot2", "list")}})

    # (c) black box: the unmodified binary, repeated / GOMAXPROCS / -debug=p / permuted arguments / unrelated packages
    exe = ctx.binary("gogreement")
    v = gen_xpkg.variant(rng)
    prog, exp = gen_xpkg.build(v, "C11_bb")
    root = os.path.join(ctx.scratch, "bb")
    proglib.write_module(root, prog)
    for name, src in TVARIANT.items():
        os.makedirs(os.path.dirname(os.path.join(root, name)), exist_ok=True)
        open(os.path.join(root, name), "w").write(src)

    def bb(args, env=None, flags=()):
        e = vlib.go_env(env)
        r = subprocess.run([exe, "-json", "--config.scan-tests=true"] + list(flags) + args, cwd=root, env=e, stdout=subprocess.PIPE,
                           stderr=subprocess.PIPE, text=True, timeout=300)
        ds, errs = proglib.parse_json_tree(r.stdout, root)
        if errs or vlib.crashed(r.stderr) or r.returncode != 0:
            return None, (errs or r.stderr)[:600] if (errs or r.stderr) else "rc=%d" % r.returncode
        return by_pkg(proglib.dedup(ds)), None

    base, fail = bb(["./..."])
    if fail:
        ctx.violation("black-box run failed: %s" % fail, {"kind": "blackbox", "args": ["./..."]})
        base = {}
    pk = ["./d", "./u", "./w", "./lib/...", "./app", "./zapp", "./other", "./core", "./x/svc", "./y/svc", "./zo", "./gen", "./multi", "./multi2"]
    if len(base.get("multi", ())) != 1 or not base.get("gen"):
        raise vlib.ToolError("the black-box module does not show the expected diagnostics in m/multi (1) and m/gen: %s %s" % (base.get("multi"), base.get("gen")))
    if not base.get("zo"):
        raise vlib.ToolError("the black-box module reports nothing in m/zo (vacuous)")
    variants = [(["./..."], None, ()), (["./..."], {"GOMAXPROCS": "1"}, ()), (["./..."], {"GOMAXPROCS": "16"}, ()), (["./..."], None, ("-debug=p",))]
    for _k in range(40 if thorough else 6):
        pm = list(pk)
        rng.shuffle(pm)
        variants.append((pm, None, ()))
    variants.append((list(reversed(pk)), None, ()))
    for sub in (["./gen"], ["./gen", "./app"], ["./app", "./gen", "./zapp"], ["./multi"], ["./y/svc"], ["./x/svc"], ["./zo"], ["./y/svc", "./x/svc"], ["./y/svc", "./zo"], ["./zo", "./x/svc", "./y/svc"], ["./lib/..."], ["./lib/...", "./app"], ["./lib/...", "./zapp"], ["./w"], ["./u", "./other"], ["./lib/...", "./other"]):
        variants.append((sub, None, ()))
        variants.append((sub, None, ("-debug=p",)))
    if thorough:
        variants = variants * 3

    def runv(vv):
        return vv, bb(*vv)

    with cf.ThreadPoolExecutor(8) as ex:
        for (args, env, flags), (got, fail) in ex.map(runv, variants):
            nrun += 1
            if fail:
                if len(ctx.violations) < 3:
                    ctx.violation("black-box run %s %s failed: %s" % (args, flags, fail), {"kind": "blackbox", "args": args, "flags": list(flags)})
                continue
            # every package that is named in this run must get exactly the diagnostics of the reference run
            named_dirs = set()
            for a in args:
                named_dirs |= {"d", "u", "w", "lib", "app", "zapp", "other", "core", "x", "y", "zo", "gen", "multi", "multi2"} if a == "./..." else {a.strip("./").split("/")[0]}
            for dpk in named_dirs:
                if got.get(dpk, set()) != base.get(dpk, set()):
                    g2, f2 = bb(args, env, flags)
                    if not f2 and g2.get(dpk, set()) == base.get(dpk, set()):
                        # not stable for the same command line: that is itself a violation (repeated runs differ)
                        what = "repeated runs of the same command differ"
                    else:
                        what = "depends on the run set / schedule"
                    if len(ctx.violations) < 3:
                        only_ref = sorted(x[:3] for x in base.get(dpk, set()) - got.get(dpk, set()))
                        only_run = sorted(x[:3] for x in got.get(dpk, set()) - base.get(dpk, set()))
                        ctx.violation("package %s analysed with arguments %s %s env=%s: %s; only in the reference run (./...): %s, only in this run: %s"
                                      % (dpk, args, list(flags), env, what, only_ref[:5], only_run[:5]),
                                      {"kind": "blackbox", "args": args, "flags": list(flags), "env": env, "package": dpk,
                                       "only_in_reference": only_ref, "only_in_this_run": only_run})
                    break
    # (c2) the same under a project-wide exclusion that matches nothing here (exclude-checks=IMPL02): packages with @ignore comments of
    # their own, listed in different orders and alone
    # and under a list whose tokens name no code at all (a slip such as CTORO1): nothing is excluded, no run fails
    for xflags in (("--config.exclude-checks=IMPL02",), ("--config.exclude-checks=CTORO1,zz9",)):
        base2, fail2 = bb(["./..."], None, xflags)
        if fail2 and xflags[0].endswith("IMPL02"):
            raise vlib.ToolError("black-box reference run with exclude-checks failed: %s" % fail2)
        if fail2:
            base2 = base      # tokens that match no code leave the unrestricted result (Config.tla: Matches is false for them)
        for args in (["./multi", "./multi2", "./lib/..."], ["./multi2", "./multi", "./lib/..."], ["./lib/...", "./multi2", "./multi"], ["./multi"], ["./multi2"],
                     ["./multi", "./multi2", "./lib/..."], ["./..."]):
            for fl in (xflags, xflags + ("-debug=p",)):
                got, fail = bb(args, None, fl)
                nrun += 1
                dirs = {a.strip("./").split("/")[0] for a in args} - {""}
                if (fail or any(got.get(d, set()) != base2.get(d, set()) for d in dirs)) and len(ctx.violations) < 3:
                    diff = {d: (sorted(x[:3] for x in base2.get(d, set()) - (got or {}).get(d, set())), sorted(x[:3] for x in (got or {}).get(d, set()) - base2.get(d, set())))
                            for d in dirs if (got or {}).get(d, set()) != base2.get(d, set())}
                    ctx.violation("with %s, arguments %s %s: %s (per package: only in the reference run ./..., only in this run): %s"
                                  % (xflags[0], args, list(fl[1:]), fail or "the diagnostics of a package depend on the run set / order", diff),
                                  {"kind": "blackbox", "args": args, "flags": list(fl)})

    # (d) a go.work workspace with two independent modules: the diagnostics of each module do not depend on the other being in the run
    ws = os.path.join(ctx.scratch, "ws")
    wsfiles = {
        "go.work": "go 1.25\n\nuse (\n\t./alpha\n\t./beta\n)\n",
        "alpha/go.mod": "module example.com/alpha\n\ngo 1.25\n",
        "alpha/a/a.go": "package a\n\n// T is immutable.\n// @immutable\ntype T struct{ X int }\n\nfunc Bump(t *T) {\n\tt.X += 1\n}\n",
        "beta/go.mod": "module example.com/beta\n\ngo 1.25\n",
        "beta/b/b.go": "package b\n\n// C has a constructor.\n// @constructor NewC\ntype C struct{ X int }\n\nfunc NewC() *C { return &C{} }\n\nfunc Rogue() C {\n\treturn C{X: 1}\n}\n",
    }
    for name, src in wsfiles.items():
        os.makedirs(os.path.dirname(os.path.join(ws, name)), exist_ok=True)
        open(os.path.join(ws, name), "w").write(src)

    def wsrun(args, env_extra=None):
        e = vlib.go_env(env_extra)
        e.pop("GOFLAGS", None)          # -mod=mod is not allowed in workspace mode; nothing needs to be fetched
        r = subprocess.run([exe, "-json"] + args, cwd=ws, env=e, stdout=subprocess.PIPE, stderr=subprocess.PIPE, text=True, timeout=300)
        ds, errs = proglib.parse_json_tree(r.stdout, ws)
        if errs or vlib.crashed(r.stderr) or r.returncode != 0:
            return None, (str(errs) or r.stderr)[:500]
        return by_pkg(proglib.dedup(ds)), None
    ref = {}
    for mod in ("alpha", "beta"):
        got, fail = wsrun(["./%s/..." % mod])
        if fail or not got or not got.get(mod):
            raise vlib.ToolError("workspace module %s alone: %s %s" % (mod, fail, got))
        ref[mod] = got[mod]
    for args, env_extra in ((["./alpha/...", "./beta/..."], None), (["./beta/...", "./alpha/..."], None), (["./alpha/...", "./beta/..."], {"GOMAXPROCS": "1"}),
                            (["./beta/...", "./alpha/..."], {"GOMAXPROCS": "1"})) + ((["./alpha/...", "./beta/..."], None),) * (6 if thorough else 2):
        got, fail = wsrun(args, env_extra)
        nrun += 1
        if (fail or any(got.get(m, set()) != ref[m] for m in ref)) and len(ctx.violations) < 3:
            ctx.violation("go.work workspace with two modules, arguments %s env=%s: %s; each module analysed alone reports %s"
                          % (args, env_extra, fail or {m: sorted(x[:3] for x in got.get(m, set())) for m in ref},
                             {m: sorted(x[:3] for x in ref[m]) for m in ref}),
                          {"kind": "workspace", "args": args, "env": env_extra})

    return ctx.finish("model_checking", {
        "traces_validated_against_impl": nrun,
        "samples": samples or [{"note": "see violations"}],
        "evaluations": nrun,
        "distinct_nontrivial": nontrivial,
        "rule": "TLC explores every interleaving of Start/End of the 24 actions of a three-package run (all run sets) and checks that the diagnostics "
                "equal the schedule-free function L1; %d behaviours sampled by TLC's simulator are forced onto the real parallel checker driver through "
                "the blocking Run wrapper (race-enabled build), diagnostics compared and the recorded trace validated by PipelineTrace; parallel "
                "stress of the race-enabled harness, twice; black-box runs of the unmodified binary (GOMAXPROCS 1/16, -debug=p, permuted package "
                "arguments, sub-run-sets incl. test variants under scan-tests) compared per package with the reference run; distinct_nontrivial = "
                "schedule replays with a non-empty expectation" % len(progs),
        "schedules_replayed": len(progs),
        "exhaustive": False,
    }, assumptions=["the race detector observes only the schedules that were run (a dynamic tool, not TLA+)",
                    "schedules are forced at Start/End granularity of an action; preemption inside Run is left to the Go scheduler"])
