"""C18 - configuration resolves flag > environment > default (DESIGN.md 5, C18); shared machinery with C08."""
import concurrent.futures as cf
import json
import os
import random
import subprocess

import gen_cfg
import progcheck
import proglib
import vlib

CFG = """SPECIFICATION Spec
CONSTANTS
  Mode = "%(mode)s"
  Emit = %(emit)s
INVARIANTS Resolved ExcludeExact AllExcludesAll JunkExcludesNothing %(emitinv)s
PROPERTIES CachedOnce %(live)s
"""


def cfg(mode, emit=True, live=True):
    return CFG % dict(mode=mode, emit="TRUE" if emit else "FALSE", emitinv="EmitInv" if emit else "", live="Termination" if live else "")


class Probe:
    def __init__(self, ctx):
        self.ctx = ctx
        self.prog, self.cls = gen_cfg.probe()
        self.root = os.path.join(ctx.scratch, "probe")
        proglib.write_module(self.root, self.prog)
        self.exe = ctx.binary("gogreement")

    def run(self, env, argv, driver="binary", timeout=120):
        e = vlib.go_env(env)
        if driver == "binary":
            cmd = [self.exe, "-json"] + argv + ["./..."]
        else:
            cmd = ["go", "vet", "-vettool=" + self.exe, "-json"] + [a.replace("--config.", "-config.") for a in argv] + ["./..."]
        try:
            r = subprocess.run(cmd, cwd=self.root, env=e, stdout=subprocess.PIPE, stderr=subprocess.PIPE, text=True, timeout=timeout)
        except subprocess.TimeoutExpired:
            return None, "HANG after %ds" % timeout
        text = r.stdout if driver == "binary" else r.stderr
        if vlib.crashed(r.stderr):
            return None, "crash: " + r.stderr[-1200:]
        if driver == "binary" and r.returncode != 0:
            return None, "exit status %d: %s" % (r.returncode, r.stderr[-800:])
        diags, errs = proglib.parse_json_tree(text, self.root)
        if errs:
            return None, "analyzer errors: " + "; ".join(errs)[:800]
        vis = set()
        for d in proglib.dedup(diags):
            vis.add((self.cls.get(d["file"], d["file"]), d["code"]))
        return vis, None


def replay_scenarios(ctx, probe, scs, rng, driver="binary", workers=None):
    """Returns (n, nontrivial, samples); reports violations."""
    jobs = []
    for sc in scs:
        env, argv = gen_cfg.concretise(sc, rng)
        jobs.append((sc, env, argv))
        if sc["env"]["scan"] in ("true", "false") and sc["argv"]["scan"] == "absent":
            # the boolean spellings are case-insensitive: also a mixed-case spelling of the same class
            env2, argv2 = gen_cfg.concretise(sc, rng, force_mixed=True)
            jobs.append((sc, env2, argv2))

    def one(j):
        sc, env, argv = j
        return j, probe.run(env, argv, driver)

    n = nontrivial = 0
    samples = []
    with cf.ThreadPoolExecutor(workers or vlib.NCPU) as ex:
        for (sc, env, argv), (vis, fail) in ex.map(one, jobs):
            n += 1
            exp = set(tuple(x) for x in sc["visible"])
            if len(exp) not in (0, 33):
                nontrivial += 1
            if fail is None and vis == exp:
                if len(samples) < 3 and len(exp) not in (0, 33):
                    samples.append({"env": env, "argv": argv, "effective": sc["eff"], "visible_plants": sorted(exp)})
                continue
            # reproduce once more, alone
            vis2, fail2 = probe.run(env, argv, driver)
            if fail2 is None and vis2 == exp:
                raise vlib.ToolError("configuration mismatch did not reproduce: env=%s argv=%s" % (env, argv))
            if len(ctx.violations) < 3:
                what = ("tool failed: %s" % fail2) if fail2 else ("visible plants differ: missing %s, unexpected %s"
                                                                    % (sorted(exp - vis2), sorted(vis2 - exp)))
                ctx.violation("env=%s argv=%s (%s driver): expected effective configuration %s; %s" % (env, argv, driver, sc["eff"], what),
                              {"kind": "config", "env": env, "argv": argv, "driver": driver, "expected_visible": sorted(exp),
                               "observed_visible": sorted(vis2) if vis2 is not None else None, "fail": fail2, "scenario": sc})
    return n, nontrivial, samples


def replay_file(ctx, path):
    obj = json.load(open(path))
    probe = Probe(ctx)
    vis, fail = probe.run(obj["env"], obj["argv"], obj.get("driver", "binary"))
    exp = set(tuple(x) for x in obj["expected_visible"])
    print(json.dumps({"expected": sorted(exp), "observed": sorted(vis) if vis is not None else None, "fail": fail}))
    if fail or vis != exp:
        print("VIOLATION property=%s replay=%s" % (ctx.pid, path))
        return 1
    return 0


def fuzz_env(ctx, probe, rng, n):
    """No value of the environment variables makes the tool fail."""
    alphabet = "abcXYZ019 ,;=\t\\\"'%$@!#-_/.:*?[]{}()<>|&~^é中"
    jobs = []
    for i in range(n):
        env = {}
        for var in ("GOGREEMENT_SCAN_TESTS", "GOGREEMENT_EXCLUDE_PATHS", "GOGREEMENT_EXCLUDE_CHECKS"):
            if rng.random() < 0.8:
                env[var] = "".join(rng.choice(alphabet) for _ in range(rng.randrange(0, 40)))
        jobs.append(env)
    bad = 0
    with cf.ThreadPoolExecutor(vlib.NCPU) as ex:
        for env, (vis, fail) in zip(jobs, ex.map(lambda e: probe.run(e, []), jobs)):
            if fail:
                vis2, fail2 = probe.run(env, [])
                if fail2 and len(ctx.violations) < 3:
                    ctx.violation("environment %r makes the tool fail: %s" % (env, fail2.split("\n")[0][:200]),
                                  {"kind": "config", "env": env, "argv": [], "expected_visible": [], "fuzz": True, "fail": fail2})
                    bad += 1
    return n


def run(ctx):
    if ctx.replay:
        return replay_file(ctx, ctx.replay)
    thorough = ctx.tier == "thorough"
    rng = random.Random(ctx.seed)
    probe = Probe(ctx)
    # sanity of the probe itself: with everything unset the default configuration applies
    vis, fail = probe.run({}, [])
    if fail:
        ctx.violation("default run failed: " + fail, {"kind": "config", "env": {}, "argv": [], "expected_visible": [], "fail": fail})
        return ctx.finish("model_checking", {"evaluations": 1, "distinct_nontrivial": 0, "samples": [{"fail": fail}]})
    scs1, r1 = progcheck.tlc_scenarios(ctx, "Config", cfg("grid1"), "c18_grid1", coverage=True)
    zero = [a for a, n in r1["cov"].items() if n == 0 and not a.endswith("Finished")]
    if zero:
        raise vlib.ToolError("vacuous actions: %s" % zero)
    scs2, r2 = progcheck.tlc_scenarios(ctx, "Config", cfg("grid"), "c18_grid")
    n1, nt1, samples = replay_scenarios(ctx, probe, scs1, rng)
    pick = progcheck.sample(scs2, 6000 if thorough else 250, ctx.seed)
    n2, nt2, s2 = replay_scenarios(ctx, probe, pick, rng)
    nv = 0
    if not ctx.violations:
        nv, _, _ = replay_scenarios(ctx, probe, progcheck.sample(scs1 + pick, 400 if thorough else 24, ctx.seed + 1), rng, driver="vet", workers=8)
    nf = fuzz_env(ctx, probe, rng, 300 if thorough else 48)
    return ctx.finish("model_checking", {
        "traces_validated_against_impl": n1 + n2 + nv + nf,
        "samples": (samples + s2)[:3],
        "evaluations": n1 + n2 + nv + nf,
        "distinct_nontrivial": nt1 + nt2,
        "rule": "terminal states of Config.tla (per-option grids {flag absent/empty/value} x {env unset/empty/value} exhaustively, the full "
                "product %s) are concretised with seeded spellings (boolean spelling classes, lists with blanks / empty items / mixed case / "
                "trailing commas) and the unmodified binary is run on a probe module with planted violations (one per code in a regular file, one "
                "in a _test.go file, one under a *testdata* directory, one under zzgen/); the set of visible plants must equal the model's; plus "
                "a vet-driver sample and fuzzed environment strings that must not make the tool fail; distinct_nontrivial = configurations "
                "whose visible set is neither everything-by-default nor empty" % ("sampled (6000)" if thorough else "sampled (250)"),
        "grid_states_emitted": len(scs1) + len(scs2),
        "vet_driver_runs": nv,
        "fuzzed_environments": nf,
        "exhaustive": False,
    }, assumptions=["GOGREEMENT_ENV_ONLY unset", "boolean flags restricted to spellings package flag accepts",
                    "the scratch path contains none of the exclude-paths tokens used"])
