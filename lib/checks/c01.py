"""C01 - @immutable enforced exactly (DESIGN.md 5, C01)."""
import gen_imm
import progcheck
import vlib

CFG = """SPECIFICATION Spec
CONSTANTS
  Mode = "%(mode)s"
  Deviations = %(dev)s
  Emit = %(emit)s
INVARIANTS Exact NoAnnNoDiag NoCrash %(emitinv)s
PROPERTIES ContextScoped Stable %(live)s
"""

MODULE = "Immutable"
CATS = {"IMM"}
BUILD = staticmethod(gen_imm.build_imm)


def cfg(mode, emit=True, dev="{}", live=True):
    return CFG % dict(mode=mode, dev=dev, emit="TRUE" if emit else "FALSE", emitinv="EmitInv" if emit else "",
                      live="Termination" if live else "")


def describe(meta):
    return _describe(meta)


def _describe(meta):
    cs = [c for f in meta["files"] for c in f]
    return "pkg %s, ann %s, containers %s" % (meta["pkg"], {k: v for k, v in meta["ann"].items() if v},
                                              ["%s/%s/%s/%s%s" % (c["kind"], c["stmt"], c["nest"], c["sp"], "" if c.get("ptr", True) else "/val") for c in cs])


def nonvacuous(ctx, module, devs, cfgfn):
    """Each deviation switch must make the model violate its L1 (the invariants are not vacuous)."""
    for dev, mode, inv in devs:
        r = ctx.tlc(module, cfgfn(mode, emit=False, dev='{"%s"}' % dev, live=False), label="%s_dev_%s" % (ctx.pid.lower(), dev),
                    allow_violation=True, count=False)
        if r["violated"] not in inv:
            raise vlib.ToolError("deviation %s does not violate %s in the model (got %s): vacuous invariant" % (dev, inv, r["violated"]))


def registry_replay(ctx):
    """The indexes themselves (util.TypeAssociationRegistry / util.TypesMap): every history of <= 3 (quick) / 4 (thorough) Add calls
    of Registry.tla, with the answers the specification gives, replayed through the real structures."""
    import json
    import subprocess
    rcfg = ("SPECIFICATION Spec\nCONSTANTS\n  MaxOps = %d\n  Emit = %s\n  Deviations = %s\nINVARIANTS Agree EmitInv\nPROPERTIES Independent\n"
            "CHECK_DEADLOCK FALSE\n")
    r = ctx.tlc("Registry", rcfg % (2, "FALSE", '{"PkgBlind"}'), label="registry_dev", allow_violation=True, count=False, collect_emit=False)
    if r["violated"] is None:
        raise vlib.ToolError("deviation PkgBlind violates nothing in Registry: vacuous")
    ar = ctx.tlc("Registry", rcfg % (4 if ctx.tier == "thorough" else 3, "TRUE", "{}"), label="registry", collect_emit=False, timeout=2400)
    with open(ar["out"]) as f:
        pr = subprocess.run([ctx.vh(), "registry-replay"], stdin=f, stdout=subprocess.PIPE, stderr=subprocess.PIPE, text=True)
    if pr.returncode not in (0, 1):
        raise vlib.ToolError("registry-replay failed: " + (pr.stderr or pr.stdout)[-800:])
    res = json.loads(pr.stdout)
    if res["histories"] != ar["distinct"]:
        raise vlib.ToolError("replayed %d histories, TLC found %d states" % (res["histories"], ar["distinct"]))
    for mm in (res["mismatches"] or []):
        text = "annotation index (TypeAssociationRegistry / TypesMap) after %s: %s = %s, the specification says %s" % (
            mm["history"], mm["query"], mm["observed"], mm["expected"])
        if not mm.get("used", True):
            ctx.note(text + " (this query is not consulted by the checkers)")
        elif len(ctx.violations) < 3:
            ctx.violation(text, {"kind": "registry", "scenario": mm})
    return res


def run_family(ctx, module, build, cats, cfgfn, modes_quick, modes_thorough, devs, assumptions, rule, describe=None, cfgs=(None,),
               cov_mode="seq2", registry=False, extra_real=(), excl_file=None):
    if ctx.replay:
        return progcheck.replay_file(ctx, ctx.replay)
    thorough = ctx.tier == "thorough"
    rep = progcheck.Replay(ctx, cats)
    nonvacuous(ctx, module, devs, cfgfn)
    total = 0
    real_items = list(extra_real)
    excl_items = []
    for mode, k in (modes_thorough if thorough else modes_quick):
        scs, r = progcheck.tlc_scenarios(ctx, module, cfgfn(mode), "%s_%s" % (ctx.pid.lower(), mode), coverage=(mode == cov_mode))
        total += len(scs)
        pick = progcheck.sample(scs, k, ctx.seed)
        items = []
        for i, sc in enumerate(pick):
            prog, exp, _tags = build(sc, "%s_%s_%d" % (ctx.pid, mode, i))
            items.append((prog, exp, {k2: sc[k2] for k2 in ("ann", "pkg", "files")}))
        for c in cfgs:
            for lo in range(0, len(items), 20000):
                rep.check(items[lo:lo + 20000], cfg=c)
        real_items += progcheck.sample(items, 400 if thorough else 40, ctx.seed + 7)
        if excl_file and mode in ("single", "seq2"):
            excl_items += progcheck.sample(items, 3000 if thorough else 400, ctx.seed + 11)
    for lab, cov in ctx.coverage.items():
        zero = [a for a, n in cov.items() if n == 0 and not a.endswith("Finished")]
        if zero:
            raise vlib.ToolError("vacuous actions in %s: %s" % (lab, zero))
    rep.settle(describe=describe or _describe)
    nexcl = 0
    if excl_file:
        # "in every analysed (non-excluded) file": with one of the using files excluded by name (it is not the first file of its
        # package) exactly the diagnostics located in it disappear
        rep2 = progcheck.Replay(ctx, cats)
        c = {"scan_tests": "false", "exclude_paths": excl_file}
        rep2.check([(p, {e for e in exp if not e[0].endswith("/" + excl_file)}, dict(m, excluded=excl_file)) for p, exp, m in excl_items], cfg=c)
        rep2.settle(cfg=c, describe=lambda m: "exclude-paths=%s; %s" % (excl_file, (describe or _describe)(m)))
        nexcl = rep2.run
    reg = registry_replay(ctx) if registry else None
    nreal = 0
    if not ctx.violations:
        for c in cfgs:
            nreal += progcheck.real_drivers(ctx, real_items, cats, rep, cfg=c)
    return ctx.finish("model_checking", {
        **({"index_histories_replayed": reg["histories"], "index_queries": reg["queries"]} if reg else {}),
        "traces_validated_against_impl": rep.run + nreal + nexcl,
        "replayed_with_one_file_excluded": nexcl,
        "samples": rep.samples,
        "evaluations": rep.run + nreal,
        "distinct_nontrivial": len(rep.nontrivial),
        "rule": rule + "; distinct_nontrivial = distinct scenarios whose expected diagnostic set is non-empty",
        "scenarios_emitted_by_tlc": total,
        "replayed_in_process": rep.run,
        "replayed_real_binary_and_vet": nreal,
        "exhaustive": thorough,
    }, assumptions=assumptions)


def run(ctx):
    return run_family(
        ctx, MODULE, gen_imm.build_imm, CATS, cfg, excl_file="f1.go",
        modes_quick=[("single", 6000), ("seq2", 6000), ("spell", 2000)],
        modes_thorough=[("single", None), ("seq2", None), ("seq3", None), ("spell", None)],
        devs=[("LeakWalkState", "seq2", ("Exact", "NoCrash")), ("CtorAnyPkg", "single0", ("Exact",)), ("CtorByBareName", "single0", ("Exact",)), ("NoUnalias", "spell", ("Exact",)), ("CtorAnyType", "single0", ("Exact",)), ("GroupDocLeaks", "single0", ("Exact",)), ("RecvBySyntax", "spell", ("Exact",)), ("RecvNameMemo", "seq2", ("Exact",)), ("MutableByFieldName", "single0", ("Exact",)), ("OneTypePerCtor", "single0", ("Exact",))],
        assumptions=["fragment: non-generic defined types, direct imports, one candidate statement per declaration",
                     "methods named like a constructor are not generated (unspecified)",
                     "diagnostics are compared as (file, line, code) sets of the IMM category"],
        rule="every terminal state of Immutable.tla (one abstract program + the diagnostics the property demands) is concretised into a "
             "multi-package Go program and analysed by the real analyzers (in-process checker driver with gob round trip of facts; a sample "
             "also through the unmodified binary and go vet -vettool); missing, extra, mis-coded and mis-placed IMM diagnostics are mismatches")
