"""C13 - enforcement follows type identity, not spelling (DESIGN.md 5, C13)."""
import gen_imm
import gen_tonl
import progcheck
import vlib
from checks import c01, c02, c03, c04

FAMILIES = [
    ("Immutable", c01.cfg, gen_imm.build_imm, {"IMM"}, ("Exact",)),
    ("Constructor", c02.cfg, gen_imm.build_ctor, {"CTOR"}, ("Exact",)),
    ("TestOnly", c03.cfg, gen_tonl.build_tonl, {"TONL"}, ("Exact",)),
    ("PackageOnly", c04.cfg, gen_tonl.build_pkgo, {"PKGO"}, ("Exact",)),
]


def spelling_of(sc):
    out = set()
    for f in sc["files"]:
        for c in (f["conts"] if isinstance(f, dict) else f):
            if isinstance(c, dict):
                out.add(c.get("sp", "direct"))
            else:
                out.add(c.partition("@")[2] or "direct")
    return out


def direct_twin(sc):
    """The same scenario with every type written directly (the metamorphic partner)."""
    import copy
    t = copy.deepcopy(sc)
    for f in t["files"]:
        cs = f["conts"] if isinstance(f, dict) else f
        for i, c in enumerate(cs):
            if isinstance(c, dict):
                c["sp"] = "direct"
            else:
                cs[i] = c.partition("@")[0]
    return t


def run(ctx):
    if ctx.replay:
        return progcheck.replay_file(ctx, ctx.replay)
    thorough = ctx.tier == "thorough"
    total = pairs = nreal = 0
    samples = []
    nontrivial = 0
    byspell = {}
    for module, cfgfn, build, cats, inv in FAMILIES:
        # in the model the verdict must not depend on the spelling: Exact holds in the spell space, and fails as soon
        # as aliases are not resolved (non-vacuity)
        c01.nonvacuous(ctx, module, [("NoUnalias", "spell", inv)], cfgfn)
        scs, r = progcheck.tlc_scenarios(ctx, module, cfgfn("spell"), "c13_%s" % module.lower(), coverage=True)
        if module in ("Immutable", "Constructor"):
            # two functions of one package declare the same local alias name for different types
            s2, _r2 = progcheck.tlc_scenarios(ctx, module, cfgfn("localalias"), "c13_%s_local" % module.lower())
            scs += s2
        total += len(scs)
        rep = progcheck.Replay(ctx, cats)
        items = []
        for i, sc in enumerate(scs):
            prog, exp, tags = build(sc, "C13_%s_%d" % (module, i))
            meta = {k: v for k, v in sc.items() if k != "expect"}
            items.append((prog, exp, meta))
            for s in spelling_of(sc):
                byspell[s] = byspell.get(s, 0) + 1
            # metamorphic partner: the direct spelling must give the same keys on the tagged statements
            if spelling_of(sc) != {"direct"}:
                tw = direct_twin(sc)
                prog2, exp2, tags2 = build(tw, "C13_%s_%d_direct" % (module, i))
                own = {(fn, ln) for (fn, ln, _t) in tags.values()}
                own2 = {(fn, ln) for (fn, ln, _t) in tags2.values()}
                e1 = {k for k in exp if (k[0], k[1]) in own}
                e2 = {k for k in exp2 if (k[0], k[1]) in own2}
                if {(k[2]) for k in e1} != {(k[2]) for k in e2}:
                    raise vlib.ToolError("model error: expectation depends on the spelling: %s" % meta)
                items.append((prog2, exp2, tw if "expect" not in tw else {k: v for k, v in tw.items() if k != "expect"}))
                pairs += 1
        rep.check(items)
        rep.settle(describe=lambda m: "%s scenario %s" % (module, str(m)[:400]))
        nontrivial += len(rep.nontrivial)
        samples += rep.samples[:1]
        if not ctx.violations:
            nreal += progcheck.real_drivers(ctx, progcheck.sample(items, 300 if thorough else 30, ctx.seed), cats, rep)
    for lab, cov in ctx.coverage.items():
        zero = [a for a, n in cov.items() if n == 0 and not a.endswith("Finished")]
        if zero:
            raise vlib.ToolError("vacuous actions in %s: %s" % (lab, zero))
    return ctx.finish("model_checking", {
        "traces_validated_against_impl": total + pairs + nreal,
        "samples": samples,
        "evaluations": total + pairs + nreal,
        "distinct_nontrivial": nontrivial,
        "rule": "for each of the four checker specifications the 'spell' space (every use-site kind x every spelling of the type: direct, local "
                "alias, alias of the pointer type, alias exported by a third package with d imported directly, renamed import, parentheses) is "
                "enumerated by TLC with the expectation computed from the resolved type only; each scenario and its directly-spelled twin are "
                "concretised and analysed; distinct_nontrivial = scenarios with a non-empty expectation",
        "scenarios_emitted_by_tlc": total,
        "metamorphic_pairs": pairs,
        "scenarios_by_spelling": byspell,
        "replayed_real_binary_and_vet": nreal,
        "exhaustive": True,
    }, assumptions=["third-package alias: the using package also imports the declaring package directly (annotations travel through direct imports only)",
                    "parenthesised composite-literal types are not valid Go and are not generated",
                    "the alias declaration of a @packageonly type in a package that is not allowed is itself a reported reference"])
