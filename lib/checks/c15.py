"""C15 - the annotation grammar is exactly the documented one (DESIGN.md 5, C15)."""
import json

import gen_grammar
import progcheck
import proglib
import vlib

CFG = """SPECIFICATION Spec
CONSTANTS
  MaxLen = %(n)d
  Emit = %(emit)s
  Deviations = {}
  Mode = "%(mode)s"
INVARIANTS Exact TailIgnored SitesOK %(emitinv)s
%(live)s
"""


def cfg(n, mode="lines", emit=True, live=True):
    return CFG % dict(n=n, mode=mode, emit="TRUE" if emit else "FALSE", emitinv="EmitInv" if emit else "", live="PROPERTIES Termination" if live else "")


def check_items(ctx, scs, label, chunk=1500):
    """Place every scenario's line in a generated file, read it with the real readers, compare."""
    builders = []
    for k in range(0, len(scs), chunk):
        fb = gen_grammar.FileBuilder("g%d" % (k // chunk))
        for idx in range(k, min(k + chunk, len(scs))):
            fb.add(idx, scs[idx])
        builders.append(fb)
    progs = [fb.program("%s_%d" % (label, i)) for i, fb in enumerate(builders)]
    for fb, prog in zip(builders, progs):
        prog["_items"] = [list(it[:3]) for it in fb.items]
    res = proglib.run_vh(ctx, progs, dump=True, timeout=1800)
    n = nontrivial = unspec = 0
    bad = []
    samples = []
    for fb, prog in zip(builders, progs):
        r = res[prog["id"]]
        if r.get("err"):
            raise vlib.ToolError("generated grammar file does not load: %s" % r["err"][:600])
        if r.get("fail"):
            bad.append((None, "analysis failed: " + r["fail"][:300], prog))
            continue
        pkgpath = prog["pkgs"][0]["path"]
        obs = gen_grammar.observed(r, pkgpath)
        marks = {}
        for m in (r.get("marks") or {}).get(pkgpath) or []:
            marks.setdefault(m["sl"], []).append(tuple(m["codes"]))
        src_lines = prog["pkgs"][0]["files"][0]["src"].split("\n")
        lineno = {}
        for i, l in enumerate(src_lines, 1):
            lineno.setdefault(l.strip(), []).append(i)
        for idx, name, item, exp, site, text in fb.items:
            n += 1
            if exp == "unspec":
                unspec += 1
                continue
            if item == "ignore2":
                want = ([exp[1]] if exp else []) + [("CTOR02",)]
                decl_line = lineno.get("func %s() {}" % name, [0])[0]
                got = marks.get(decl_line - 2, []) + marks.get(decl_line - 1, [])
                ok = got == want
                o = got
                e = want
            elif item == "ignore":
                # the marker that starts on the comment's line (standalone comment before func G<n>)
                want = [exp[1]] if exp else []
                decl_line = lineno.get("func %s() {}" % name, [0])[0]
                got = marks.get(decl_line - 1, [])
                ok = got == want
                o = got
                e = want
            else:
                base = {("immutable", ())} if site in ("fieldDocImm", "fieldDocImmMulti", "embeddedDocImm", "fieldLineImm") else set()
                e = base | ({exp} if exp else set())
                o = obs.get(name, set())
                ok = o == e
            if exp:
                nontrivial += 1
                if len(samples) < 3 and len(text) > 16:
                    samples.append({"line": text, "site": site, "recognised_as": [exp[0], list(exp[1])]})
            if not ok:
                bad.append((idx, {"line": text, "site": site, "expected": sorted(map(str, e)), "observed": sorted(map(str, o))}, prog))
    return n, nontrivial, unspec, bad, samples


def fb_items(prog, group, label):
    """(scenario index, item name, ...) of the generated file: item names are T<n>/F<n>/... in the order of FileBuilder.add."""
    return prog.get("_items") or []


def run(ctx):
    if ctx.replay:
        obj = json.load(open(ctx.replay))
        sc = obj["scenario"]
        n, nt, us, bad, _ = check_items(ctx, [sc], "C15_replay")
        print(json.dumps({"bad": [b[1] for b in bad]}))
        if bad:
            print("VIOLATION property=C15 replay=%s" % ctx.replay)
            return 1
        return 0
    thorough = ctx.tier == "thorough"
    # (1) the model: scanner = documented grammar on all lines up to MaxLen, with termination
    n_model = 5 if thorough else 4
    ctx.tlc("Grammar", cfg(n_model, emit=False, live=False), label="c15_model_%d" % n_model, timeout=3000)
    # (2) emit and replay
    n_emit = 4 if thorough else 3
    scs, r = progcheck.tlc_scenarios(ctx, "Grammar", cfg(n_emit), "c15_lines_%d" % n_emit, coverage=not thorough, timeout=3000)
    if not thorough:
        zero = [a for a, c in r["cov"].items() if c == 0 and not a.endswith("Finished")]
        if zero:
            raise vlib.ToolError("vacuous actions: %s" % zero)
    sites, _ = progcheck.tlc_scenarios(ctx, "Grammar", cfg(2, mode="sites"), "c15_sites")
    total = nontrivial = unspec = 0
    samples = []
    for label, group in (("C15_lines", scs), ("C15_sites", sites)):
        n, nt, us, bad, smp = check_items(ctx, group, label)
        total += n
        nontrivial += nt
        unspec += us
        samples += smp
        seen = set()
        for idx, what, prog in bad:
            if idx is None:
                ctx.violation(what, {"kind": "program", "program": prog, "expected": [], "cats": []})
                continue
            key = (what["site"], group[idx]["line"]["kw"], tuple(what["expected"]) == ())
            if key in seen or len(ctx.violations) >= 3:
                continue
            seen.add(key)
            # reproduce alone
            n1, _, _, bad1, _ = check_items(ctx, [group[idx]], "C15_one")
            if not bad1:
                # not alone: does it reproduce in its own file (the generated file is ordinary Go with many declarations), analysed
                # on its own, twice?  Then the reading of a comment depends on the other declarations of the package.
                again = []
                for _rep in range(2):
                    r2 = proglib.run_vh(ctx, [prog], dump=True)[prog["id"]]
                    o2 = gen_grammar.observed(r2, prog["pkgs"][0]["path"]) if not (r2.get("err") or r2.get("fail")) else None
                    name = [it[1] for it in fb_items(prog, group, label) if it[0] == idx]
                    again.append(o2 is not None and bool(name) and sorted(map(str, o2.get(name[0], set()))) == what["observed"])
                if not all(again):
                    raise vlib.ToolError("grammar mismatch did not reproduce alone nor in its file: %s" % what)
                ctx.violation("comment %r at placement %s: the documented grammar gives %s, the readers give %s - only when the declaration "
                              "stands among the other declarations of its file (alone it is read correctly): the reading of a comment depends "
                              "on neighbouring declarations" % (what["line"], what["site"], what["expected"], what["observed"]),
                              {"kind": "program", "program": prog, "expected": [], "cats": [], "detail": what})
                continue
            ctx.violation("comment %r at placement %s: the documented grammar gives %s, the readers give %s"
                          % (what["line"], what["site"], what["expected"], what["observed"]),
                          {"kind": "grammar", "scenario": group[idx], "detail": what})
    # (3) effect: what the readers recognise takes effect through the checkers exactly where it is documented - several annotations on
    # one type are judged one by one (Implements.tla, family multi), a method's @packageonly does not reach its receiver type and vice
    # versa (PackageOnly.tla, single references)
    import gen_impl
    import gen_tonl
    from checks import c04, c05
    escs, _r = progcheck.tlc_scenarios(ctx, "Implements", c05.cfg("multi"), "c15_effect_impl")
    eitems = []
    for i, sc in enumerate(escs):
        prog, _exp = gen_impl.build_impl(sc, "C15_eff_impl_%d" % i)
        eset = {(c, tuple(sorted(m))) for c, m in ((sc["code"], sc["missing"]), (sc["code2"], sc["missing2"])) if c != "none"}
        eitems.append((prog, eset, sc))
    eres = proglib.run_vh(ctx, [it[0] for it in eitems])
    for prog, eset, sc in eitems:
        r = eres[prog["id"]]
        total += 1
        got = None if (r.get("fail") or r.get("err")) else gen_impl.observed_all(r["diags"])
        if got != eset:
            r2 = proglib.run_vh(ctx, [prog])[prog["id"]]
            got2 = None if (r2.get("fail") or r2.get("err")) else gen_impl.observed_all(r2["diags"])
            if got2 == eset:
                raise vlib.ToolError("effect mismatch did not reproduce: %s" % sc["sc"])
            if len(ctx.violations) < 3:
                ctx.violation("two well-formed @implements lines on one type (second = %s, first qualifier %s): each must take effect on its own; expected %s, observed %s"
                              % (sc["sc"]["second"], sc["sc"]["qual"], sorted(eset), sorted(got2) if got2 is not None else None),
                              {"kind": "program", "program": prog, "expected": [], "cats": [], "scenario": sc["sc"]})
    pscs, _r = progcheck.tlc_scenarios(ctx, "PackageOnly", c04.cfg("single"), "c15_effect_pkgo")
    rep = progcheck.Replay(ctx, {"PKGO"})
    pitems = []
    # references to the un-annotated neighbours of annotated items (a function that shares its name with an annotated method) always take part
    plain = [sc for sc in pscs if sc["files"] == [["plain"]]]
    for i, sc in enumerate(progcheck.sample(pscs, 400 if thorough else 150, ctx.seed) + plain):
        prog, exp, _tags = gen_tonl.build_pkgo(sc, "C15_eff_pkgo_%d" % i)
        pitems.append((prog, exp, {"al": sc["al"], "pkg": sc["pkg"], "files": sc["files"]}))
    rep.check(pitems)
    rep.settle(describe=lambda m: "@packageonly (allow-list shape %s) seen from package %s, reference %s: the annotation must take effect at the item it documents only"
               % (m["al"], m["pkg"], m["files"]))
    total += rep.run
    # annotations in the files that follow a skipped file of the same package (skipped by name or as a test file, sorting before or
    # after the annotated file) are recognised like anywhere else (Files.tla, classes genfirst / genfile / test)
    import gen_files
    from checks import c14
    fscs, _r = progcheck.tlc_scenarios(ctx, "Files", c14.cfg(), "c15_effect_files")
    fgroups = {}
    for sc in fscs:
        if sc["sc"]["cls"] in ("genfirst", "genfile", "test") and sc["skip"]:
            fgroups.setdefault(json.dumps(gen_files.cfg_of(sc), sort_keys=True), []).append(sc)
    for key, group in sorted(fgroups.items()):
        c = json.loads(key)
        frep = progcheck.Replay(ctx, None)
        fitems = []
        for i, sc in enumerate(progcheck.sample(group, 400 if thorough else 60, ctx.seed)):
            prog, exp, _ = gen_files.build_files(sc, "C15_eff_files_%d_%d" % (total, i))
            fitems.append((prog, exp, {"sc": sc["sc"], "skip": sc["skip"]}))
        frep.check(fitems, cfg=c, project=lambda ds: proglib.keyset(ds))
        frep.settle(cfg=c, project=lambda ds: proglib.keyset(ds),
                    describe=lambda m: "annotations of a package one of whose files is skipped (%s): they must be recognised in the other files" % (m["sc"],))
        total += frep.run
    return ctx.finish("model_checking", {
        "traces_validated_against_impl": total,
        "samples": samples[:3],
        "evaluations": total,
        "distinct_nontrivial": nontrivial,
        "rule": "TLC checks scanner = documented grammar for every line `opener pre keyword rest` with rest over 12 character classes up to "
                "length %d; every line up to length %d (and every (keyword, placement) pair of the 18 placements) is written as a comment of a "
                "generated declaration, read back with the real annotationreader / ignorereader (results dumped by the in-process driver) and "
                "compared field by field (kind, pointer flag, package, names, allow-list, upper-cased codes); lines the documentation leaves open "
                "(%d: trailing comma, digit-leading names) are not compared; distinct_nontrivial = lines recognised as an annotation" % (n_model, n_emit, unspec),
        "lines_emitted": len(scs),
        "placements": len(sites),
        "unspecified_skipped": unspec,
        "exhaustive": True,
    }, assumptions=["character classes are concretised with fixed representatives (letters, digits, '!', 'é', tab/blank)",
                    "a doc comment on a `type (...)` group counts as doc comment of its specs"])
