"""C08 - exclude-checks removes exactly the matching codes, project-wide (DESIGN.md 5, C08)."""
import random

import progcheck
import vlib
from checks import c18


def run(ctx):
    if ctx.replay:
        return c18.replay_file(ctx, ctx.replay)
    thorough = ctx.tier == "thorough"
    rng = random.Random(ctx.seed)
    probe = c18.Probe(ctx)
    base, fail = probe.run({}, ["--config.exclude-paths="])
    if fail or len(base) > 48:
        raise vlib.ToolError("the unrestricted run of the probe module fails or shows more than the plants: %s %s" % (fail, base))
    # fewer than all plants without any exclusion is decided by the replay below (the scenario S = {} is part of every mode)
    scs1, r1 = progcheck.tlc_scenarios(ctx, "Config", c18.cfg("excl_small"), "c08_small", coverage=True)
    scs2, r2 = progcheck.tlc_scenarios(ctx, "Config", c18.cfg("excl_pairs"), "c08_pairs")
    zero = [a for a, n in r1["cov"].items() if n == 0 and not a.endswith("Finished")]
    if zero:
        raise vlib.ToolError("vacuous actions: %s" % zero)
    scs3, r3 = progcheck.tlc_scenarios(ctx, "Config", c18.cfg("excl_cat"), "c08_cat")
    pick = (scs1 + scs2 + scs3) if thorough else (progcheck.sample(scs1, 120, ctx.seed) + progcheck.sample(scs2, 130, ctx.seed) + scs3)
    n, nt, samples = c18.replay_scenarios(ctx, probe, pick, rng)
    nv = 0
    if not ctx.violations:
        nv, _, _ = c18.replay_scenarios(ctx, probe, progcheck.sample(pick, 300 if thorough else 20, ctx.seed + 2), rng, driver="vet", workers=8)
    return ctx.finish("model_checking", {
        "traces_validated_against_impl": n + nv,
        "samples": samples,
        "evaluations": n + nv,
        "distinct_nontrivial": nt,
        "rule": "terminal states of Config.tla in the exclusion modes: every subset of the codes of each category, every subset S of the reduced universe {ALL, IMM, CTOR, IMM01, IMM02, CTOR01, "
                "CTOR03, FOO} (by flag and by environment) and every singleton / pair of the full universe {ALL, 5 categories, 16 codes, 4 junk "
                "tokens} (flag, env, flag over env=ALL); TLC checks Run(S) = {d in Run({}) : no token of S matches d} in the model, the binary is "
                "run on the probe module (all 16 codes) with S spelled with random case / blanks / empty items and the visible codes must equal "
                "the model's (%s); distinct_nontrivial = configurations that remove some but not all codes" % ("all of them" if thorough else "seeded sample"),
        "states_emitted": len(scs1) + len(scs2),
        "vet_driver_runs": nv,
        "exhaustive": thorough,
    }, assumptions=["observed on the probe module: every code once in a regular file of one package plus the path / test plants",
                    "GOGREEMENT_ENV_ONLY unset"])
