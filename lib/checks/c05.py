"""C05 - @implements verdicts agree with Go's own type checker (DESIGN.md 5, C05)."""
import json

import gen_impl
import progcheck
import proglib
import vlib

CFG = """SPECIFICATION Spec
CONSTANTS
  Family = "%(fam)s"
  Deviations = %(dev)s
  Emit = %(emit)s
INVARIANTS Exact Ordered CorrectIsSilent %(emitinv)s
%(live)s
"""
FAMILIES = ["param", "result", "variadic", "mset", "sealed", "qual"]


def cfg(fam, emit=True, dev="{}", live=True):
    return CFG % dict(fam=fam, dev=dev, emit="TRUE" if emit else "FALSE", emitinv="EmitInv" if emit else "", live="PROPERTIES Termination" if live else "")


def obs_of(r):
    o = gen_impl.observed(r["diags"])
    return o


def run(ctx):
    if ctx.replay:
        obj = json.load(open(ctx.replay))
        prog = obj["program"]
        r = proglib.run_vh(ctx, [prog])[prog["id"]]
        o = obs_of(r)
        print(json.dumps({"expected": obj["expected"], "observed": o, "gotypes": r.get("gotypes"), "fail": r.get("fail")}))
        if r.get("err"):
            return 2
        if obj.get("kind") == "implements_multi":
            got = None if r.get("fail") else sorted([c, list(m)] for c, m in gen_impl.observed_all(r["diags"]))
            if got != [[c, list(m)] for c, m in obj["expected"]]:
                print("VIOLATION property=C05 replay=%s" % ctx.replay)
                return 1
            return 0
        if r.get("fail") or [o[0], list(o[1])] != [obj["expected"][0], list(obj["expected"][1])]:
            print("VIOLATION property=C05 replay=%s" % ctx.replay)
            return 1
        return 0
    thorough = ctx.tier == "thorough"
    for dev, fam in (("StringMatch", "param"), ("RecvOfOrigin", "mset"), ("CurrentPkgName", "qual"), ("SharedImports", "qual"), ("OwnPkgLookup", "sealed"), ("PathElemBinds", "qual"), ("DropTypeAfterUnbound", "multi"), ("SuffixMatch", "qual"), ("ExplicitMethodsOnly", "qual")):
        r = ctx.tlc("Implements", cfg(fam, emit=False, dev='{"%s"}' % dev, live=False), label="c05_dev_" + dev, allow_violation=True, count=False)
        if r["violated"] is None:
            raise vlib.ToolError("deviation %s violates nothing: vacuous" % dev)
    items = []
    for fam in FAMILIES:
        scs, r = progcheck.tlc_scenarios(ctx, "Implements", cfg(fam), "c05_" + fam, coverage=(fam == "qual"))
        for i, sc in enumerate(scs):
            prog, exp = gen_impl.build_impl(sc, "C05_%s_%d" % (fam, i))
            items.append((prog, exp, sc))
    zero = [a for lab, cov in ctx.coverage.items() for a, n in cov.items() if n == 0 and not a.endswith("Finished")]
    if zero:
        raise vlib.ToolError("vacuous actions: %s" % zero)
    # two annotations on one type: judged one by one (sets of verdicts)
    multi_items = []
    scs, r = progcheck.tlc_scenarios(ctx, "Implements", cfg("multi"), "c05_multi")
    for i, sc in enumerate(scs):
        prog, exp = gen_impl.build_impl(sc, "C05_multi_%d" % i)
        eset = {(c, tuple(sorted(m))) for c, m in ((sc["code"], sc["missing"]), (sc["code2"], sc["missing2"])) if c != "none"}
        multi_items.append((prog, eset, sc))
    res = proglib.run_vh(ctx, [it[0] for it in items] + [it[0] for it in multi_items])
    nrun = nontrivial = model_checked = 0
    samples = []
    bad = []
    for prog, eset, sc in multi_items:
        r = res[prog["id"]]
        nrun += 1
        nontrivial += 1 if eset else 0
        if r.get("err"):
            raise vlib.ToolError("generated program does not load: %s %s" % (r["err"][:400], sc["sc"]))
        got = None if r.get("fail") else gen_impl.observed_all(r["diags"])
        if got != eset:
            r2 = proglib.run_vh(ctx, [prog])[prog["id"]]
            got2 = None if r2.get("fail") else gen_impl.observed_all(r2["diags"])
            if got2 == eset:
                raise vlib.ToolError("mismatch did not reproduce: %s" % sc["sc"])
            if len(ctx.violations) < 3:
                ctx.violation("type T with two @implements lines (%s; second = %s): each annotation is judged on its own, expected %s, the tool reports %s"
                              % ({k: sc["sc"][k] for k in ("qual", "cptr", "recv")}, sc["sc"]["second"], sorted(eset), sorted(got2) if got2 is not None else r2.get("fail", "")[:200]),
                              {"kind": "implements_multi", "program": prog, "expected": sorted(eset), "observed": sorted(got2) if got2 is not None else None, "scenario": sc["sc"]})
    for prog, exp, sc in items:
        r = res[prog["id"]]
        nrun += 1
        if r.get("err"):
            raise vlib.ToolError("generated program does not load: %s %s" % (r["err"][:400], sc["sc"]))
        # second oracle: the specification's identity / method-set rules must agree with go/types on every generated case
        gt = r.get("gotypes") or {}
        if sc["code"] != "IMPL01":
            spec = ("IMPL02", ()) if sc["code"] == "IMPL02" else (sc["code"], tuple(sorted(sc["missing"])))
            gtv = ("IMPL02", ()) if not gt.get("is_iface") else (("IMPL03", tuple(gt["missing"])) if gt["missing"] else ("none", ()))
            model_checked += 1
            if spec != gtv:
                raise vlib.ToolError("model error: the specification says %s, go/types says %s for %s" % (spec, gtv, sc["sc"]))
        if r.get("fail"):
            bad.append((prog, exp, sc, None, r["fail"]))
            continue
        o = obs_of(r)
        if exp[0] != "none":
            nontrivial += 1
        if (o[0], o[1]) == (exp[0], exp[1]) and o[2] in (None, exp[2]):
            if len(samples) < 3 and exp[0] == "IMPL03" and sc["sc"]["pT"] != sc["sc"]["pI"]:
                samples.append({"scenario": sc["sc"], "expected": [exp[0], list(exp[1])], "source": prog["pkgs"][-1]["files"][0]["src"][:900]})
            continue
        bad.append((prog, exp, sc, o, None))
    seen = set()
    known = vlib.load_known()
    for prog, exp, sc, o, fail in bad:
        s = sc["sc"]
        key = (exp[0], o[0] if o else "fail", s["qual"], s["via"], s["recv"])
        if (key in seen and s["qual"] != "lastelem") or len(ctx.violations) >= 3:
            continue
        seen.add(key)
        r2 = proglib.run_vh(ctx, [prog])[prog["id"]]
        o2 = obs_of(r2) if not r2.get("fail") else None
        if o2 is not None and (o2[0], o2[1]) == (exp[0], exp[1]):
            raise vlib.ToolError("mismatch did not reproduce: %s" % s)
        # known finding KF1: listed in known_findings.jsonl by its structural signature; attributed only if the observation
        # is exactly what the specification predicts with the PathElemBinds deviation
        kf = [k for k in known if k["property"] == "C05" and all(s.get(a) == b for a, b in k["signature"].items())]
        if kf and o2 is not None and (o2[0], list(o2[1])) == (sc["kf1_code"], sorted(sc["kf1_missing"])):
            ctx.known_finding(kf[0]["id"], kf[0]["what"])
            continue
        ctx.violation("@implements %s%sI on T (method M(%s%s) %s, receiver %s, %s) against interface method M(%s%s) %s [%s]: Go says %s %s, the tool says %s"
                      % ("&" if s["cptr"] else "", {"none": "", "declared": "d.", "alias": "x.", "diffname": "bar.", "selfname": "u.", "unbound": "nope.", "lastelem": "gobar."}[s["qual"]],
                         "..." if s["vT"] else "", s["pT"], s["rT"], s["recv"], s["via"], "..." if s["vI"] else "", s["pI"], s["rI"], s["ikind"],
                         exp[0], list(exp[1]), (list(o2[:2]) if o2 else r2.get("fail", "")[:200])),
                      {"kind": "implements", "program": prog, "expected": [exp[0], list(exp[1])], "observed": list(o2) if o2 else None, "scenario": s})
    # the import table itself (util.ImportMap.Find): every table of <= 2 (quick) / 3 (thorough) imports x every qualifier
    icfg = "SPECIFICATION Spec\nCONSTANTS\n  Emit = TRUE\n  MaxImports = %d\nINVARIANTS FindsBound ResultMatches OnlyFallbackDeviates EmitInv\nPROPERTIES Termination\n" % (3 if thorough else 2)
    isc, ir = progcheck.tlc_scenarios(ctx, "ImportMap", icfg, "c05_importmap", timeout=1800)
    import subprocess
    pr = subprocess.run([ctx.vh(), "importmap-replay"], input="\n".join(json.dumps(x) for x in isc) + "\n", stdout=subprocess.PIPE,
                        stderr=subprocess.PIPE, text=True)
    if pr.returncode not in (0, 1):
        raise vlib.ToolError("importmap-replay failed: " + pr.stderr[-800:])
    ires = json.loads(pr.stdout)
    nrun += ires["scenarios"]
    for mm in (ires["mismatches"] or [])[:2]:
        if len(ctx.violations) < 3:
            ctx.violation("ImportMap.Find(%r) over imports %s: the specification resolves to %r, the implementation to %r"
                          % (mm["q"], mm["imports"], mm["expected"], mm["observed"]), {"kind": "importmap", "scenario": mm})
    nreal = 0
    if not ctx.violations:
        # a sample through the unmodified binary and go vet
        for prog, exp, sc in progcheck.sample(items, 160 if thorough else 16, ctx.seed):
            for drv in ("binary", "vet"):
                p2 = {k: v for k, v in prog.items() if k != "query"}
                r = proglib.run_binary(ctx, p2) if drv == "binary" else proglib.run_vet(ctx, p2)
                nreal += 1
                o = gen_impl.observed(r.get("diags") or [])
                kf = [k for k in known if k["property"] == "C05" and all(sc["sc"].get(a) == b for a, b in k["signature"].items())]
                if kf and not r.get("fail") and (o[0], list(o[1])) == (sc["kf1_code"], sorted(sc["kf1_missing"])):
                    ctx.known_finding(kf[0]["id"], kf[0]["what"])
                    continue
                if (r.get("fail") or (o[0], o[1]) != (exp[0], exp[1])) and len(ctx.violations) < 3:
                    ctx.violation("%s driver: expected %s %s, observed %s %s" % (drv, exp[0], list(exp[1]), list(o[:2]), (r.get("fail") or "")[:200]),
                                  {"kind": "implements", "program": prog, "expected": [exp[0], list(exp[1])], "observed": list(o), "scenario": sc["sc"], "driver": drv})
    if len(ctx.violations) < 3:
        # implementers of one interface in both type-checking universes of a package with tests (plain / test variant)
        uprog, uexp = gen_impl.universes_program()
        for c in (None, {"scan_tests": "true"}):
            for drv in ("binary", "vet"):
                for rep in range(3 if drv == "binary" else 1):
                    p2 = dict(uprog)
                    p2["id"] = "%s_%s_%d" % (uprog["id"], drv, rep)
                    r = proglib.run_binary(ctx, p2, cfg=c) if drv == "binary" else proglib.run_vet(ctx, p2, cfg=c)
                    nreal += 1
                    got = {k for k in proglib.keyset(proglib.dedup(r.get("diags") or [])) if k[2].startswith("IMPL")}
                    if (r.get("fail") or got != uexp) and len(ctx.violations) < 3:
                        ctx.violation("package with tests (plain and test variant analysed in one run), %s driver, configuration %s: expected %s, observed %s %s"
                                      % (drv, c, sorted(uexp), sorted(got), (r.get("fail") or "")[:200]),
                                      {"kind": "universes", "program": uprog, "expected": sorted(uexp), "observed": sorted(got), "driver": drv, "cfg": c})
                        break
    return ctx.finish("model_checking", {
        "traces_validated_against_impl": nrun + nreal,
        "samples": samples,
        "evaluations": nrun + nreal,
        "distinct_nontrivial": nontrivial,
        "rule": "terminal states of Implements.tla in five families: every pair of 24 x 23 parameter types and of result types (basic, named, alias, "
                "pointer depth 1-2, slice, map, chan, func; byte/uint8, any/interface{}), variadic vs slice, Go's method-set matrix (contract I / &I x "
                "value / pointer receiver x declared / promoted through E / *E, with a second missing method), qualifier resolution x interface kind; each "
                "is concretised to a three-package program; the specification's verdict is first checked against go/types (types.NewMethodSet, "
                "types.Identical: %d cases, any disagreement is a model error) and then compared with the analyzer's code and list of missing methods; "
                "distinct_nontrivial = scenarios whose expected verdict is a diagnostic" % model_checked,
        "cross_checked_with_go_types": model_checked,
        "import_tables_replayed": ires["scenarios"],
        "replayed_real_binary_and_vet": nreal,
        "exhaustive": True,
    }, assumptions=["non-generic interfaces and types; one relevant method (two in the method-set family)",
                    "blank imports and an explicit alias hiding the declared name are not generated (unspecified)"])
