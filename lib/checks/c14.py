"""C14 - excluded files are inert (DESIGN.md 5, C14)."""
import json

import gen_files
import progcheck
import proglib
import vlib

CFG = """SPECIFICATION Spec
CONSTANTS
  Deviations = %(dev)s
  Emit = %(emit)s
INVARIANTS Exact NoneInSkipped Inert TestFiles %(emitinv)s
%(live)s
"""


def cfg(emit=True, dev="{}", live=True):
    return CFG % dict(dev=dev, emit="TRUE" if emit else "FALSE", emitinv="EmitInv" if emit else "", live="PROPERTIES Termination" if live else "")


def describe(m):
    s = m["sc"]
    return ("file class %s (annotation=%s, violations=%s, file-level @ignore=%s), scan-tests=%s, exclude-paths=%s, skipped=%s"
            % (s["cls"], s["ann"], s["viol"], s["ign"], s["scan"], sorted(s["paths"]), m["skip"]))


def run(ctx):
    if ctx.replay:
        return progcheck.replay_file(ctx, ctx.replay)
    thorough = ctx.tier == "thorough"
    for dev in ("AnnNoFilter", "FuncAnnNoFilter", "CheckNoFilter", "TonlInTests", "TonlPkgLevelInTests", "FirstFile", "TestSuffixFirst", "PkgWideImports", "FactsWithoutTestAnns", "ImplAtMethod", "PhysicalName"):
        r = ctx.tlc("Files", cfg(emit=False, dev='{"%s"}' % dev, live=False), label="c14_dev_" + dev, allow_violation=True, count=False)
        if r["violated"] is None:
            raise vlib.ToolError("deviation %s violates nothing: vacuous" % dev)
    scs, r = progcheck.tlc_scenarios(ctx, "Files", cfg(), "c14_files", coverage=True)
    zero = [a for a, n in r["cov"].items() if n == 0 and not a.endswith("Finished")]
    if zero:
        raise vlib.ToolError("vacuous actions: %s" % zero)
    groups = {}
    for sc in scs:
        groups.setdefault(json.dumps(gen_files.cfg_of(sc), sort_keys=True), []).append(sc)
    run_n = nontrivial = nreal = 0
    samples = []
    for key, group in sorted(groups.items()):
        c = json.loads(key)
        rep = progcheck.Replay(ctx, None)
        items = []
        for i, sc in enumerate(group):
            prog, exp, _ = gen_files.build_files(sc, "C14_%d_%d" % (len(items), run_n + i))
            items.append((prog, exp, {"sc": sc["sc"], "skip": sc["skip"]}))
        rep.check(items, cfg=c, project=lambda ds: proglib.keyset(ds))
        rep.settle(cfg=c, project=lambda ds: proglib.keyset(ds), describe=describe)
        run_n += rep.run
        nontrivial += sum(1 for it in items if it[2]["skip"] and (it[2]["sc"]["ann"] or it[2]["sc"]["viol"]))
        samples += rep.samples[:1] if len(samples) < 3 else []
        if not ctx.violations:
            # the real binary and go vet (test variants, external test packages and real directories only exist there)
            real = [it for it in items if it[2]["sc"]["cls"] not in ("xtest",)]
            nreal += progcheck.real_drivers(ctx, progcheck.sample(real, 48 if thorough else 10, ctx.seed), None, rep, cfg=c,
                                            project=lambda ds: proglib.keyset(ds), drivers=("binary", "vet") if thorough else ("binary",))
            # the configuration in effect is the one given by the flags, also when the environment says the opposite
            # (a flag value equal to the built-in default is still a given flag); excluded directories are excluded whatever
            # the working directory of the driver (go vet runs the tool in each package's directory)
            contrary = {"GOGREEMENT_SCAN_TESTS": "false" if c["scan_tests"] == "true" else "true",
                        "GOGREEMENT_EXCLUDE_PATHS": "zzGen,vendor" if c["exclude_paths"] == "testdata" else "testdata"}
            dirs = [it for it in real if it[2]["sc"]["cls"] in ("tdpath", "genpath") and (it[2]["sc"]["ann"] or it[2]["sc"]["viol"])]
            nreal += progcheck.real_drivers(ctx, progcheck.sample(real, 24 if thorough else 6, ctx.seed + 1), None, rep, cfg=c, env_cfg=contrary,
                                            project=lambda ds: proglib.keyset(ds), drivers=("binary",))
            nreal += progcheck.real_drivers(ctx, progcheck.sample(dirs, 12 if thorough else 3, ctx.seed + 2), None, rep, cfg=c, env_cfg=contrary,
                                            project=lambda ds: proglib.keyset(ds), drivers=("vet",))
    # an exclude-paths entry is a substring of the *file path*: a directory above the module root that matches an entry excludes every
    # file of the module (the import path does not mention it)
    if not ctx.violations:
        scs_viol = [sc for sc in scs if sc["sc"]["cls"] == "sibling" and sc["sc"]["viol"] and not sc["sc"]["ign"] and not sc["sc"]["scan"] and sc["sc"]["paths"] == []]
        for i, sc in enumerate(scs_viol[:2]):
            prog, exp, _ = gen_files.build_files(sc, "C14_rootdir_%d" % i)
            for drv, token in (("binary", "mod_"), ("vet", "vet_")):
                c = {"exclude_paths": token}
                r = proglib.run_binary(ctx, prog, cfg=c) if drv == "binary" else proglib.run_vet(ctx, prog, cfg=c)
                nreal += 1
                got = proglib.keyset(r.get("diags") or [])
                if (r.get("fail") or got) and len(ctx.violations) < 3:
                    ctx.violation("exclude-paths=%s names the directory above the module root (every file path contains it), %s driver: expected no "
                                  "diagnostics, observed %s %s" % (token, drv, sorted(got)[:5], (r.get("fail") or "")[:200]),
                                  {"kind": "program", "program": prog, "expected": [], "observed": sorted(got), "cfg": c, "cats": [], "driver": drv,
                                   "note": "the scratch module is written to a directory called %s<hash>" % token})
    return ctx.finish("model_checking", {
        "traces_validated_against_impl": run_n + nreal,
        "samples": samples,
        "evaluations": run_n + nreal,
        "distinct_nontrivial": nontrivial,
        "rule": "terminal states of Files.tla: 7 file classes (regular sibling, in-package _test.go, external test package, package under a *testdata* "
                "directory, package under zzGen/, sibling files named *_zzGen.go sorting after / before a.go) x content flags (declares an annotation used "
                "by a.go, contains violations, starts with a file-level @ignore) x scan-tests x 6 exclude-paths values (incl. a nested pair of entries); each is concretised and "
                "analysed in process under that configuration (one harness process per configuration), a sample by the real binary, a second sample with the "
                "configuration given by flags while the environment says the opposite, and packages under excluded directories under go vet (tool started in the package directory); all "
                "diagnostics of all packages are compared; distinct_nontrivial = scenarios whose file is skipped and carries annotations or violations",
        "scenarios_emitted_by_tlc": len(scs),
        "replayed_real_drivers": nreal,
        "exhaustive": True,
    }, assumptions=["in the in-process driver an in-package _test.go file is simply a file of the package; the real drivers add the test variants",
                    "exclude-paths tokens never occur in the scratch path"])
