"""C10 - analysis is total: no panic, internal error or hang on any compilable package (DESIGN.md 5, C10)."""
import json
import os
import random
import re
import subprocess

import corpus
import gen_all
import gen_imm
import progcheck
import proglib
import vlib
from checks import c01, c02, c09

GENERATED = {
    # a //line directive that maps beyond the physical end of the file, with violations and trailing @ignore comments
    "linedir": """package gen

import "m/d"

//line gen_src.go:900
func f(p *d.T) {
	p.X = 1 // @ignore IMM02
	p.X = 2
	_ = d.T{X: 3} // @ignore CTOR01
}

//line other.go:1
var g = d.T{X: 4}
""",
    # a source line longer than bufio.Scanner's 64 KiB token limit, with violations below it
    "longline": "package gen\n\nimport \"m/d\"\n\nvar blob = \"" + "x" * 70000 + "\"\n\nfunc f(p *d.T) {\n\tp.X = 1\n\n\n\n\tp.X = 2\n\t_ = new(d.T)\n}\n",
    # functions without a body (assembly-backed / linknamed) next to uses of annotated types
    "bodyless": """package gen

import (
	_ "unsafe"

	"m/d"
)

//go:linkname nanotime runtime.nanotime
func nanotime() int64

//go:linkname fastrand runtime.fastrand
//go:nosplit
func fastrand() uint32

func f(p *d.T) int64 {
	p.X = 1
	_ = d.T{X: int(fastrand())}
	_ = d.TF(2) + d.PF(3)
	return nanotime()
}
""",
    # writes to variables of another package, aliases of types that are not defined types
    "pkgvars": """package gen

import "m/d"

type Headers = map[string][]string

type ID = string

type Fn = func(int) int

type Pair = struct{ A, B int }

type PP = *Pair

func f(p *d.T, h Headers, id ID, fn Fn, pp PP) {
	d.Counter++
	d.Counter = 2
	d.Counter += 3
	d.Table[0] = 4
	p.X = 5
	_ = d.PF(6)
	var x ID = id
	_, _, _, _ = x, h, fn, pp
}
""",
    # immutable structs that reach themselves through embedded pointers
    "selfembed": """package gen

// Scope embeds itself.
// @immutable
type Scope struct {
	*Scope
	Name string
	// @mutable
	Hits int
}

// Conn and Session embed each other.
// @immutable
type Conn struct {
	*Session
	ID int
}

// @immutable
type Session struct {
	*Conn
	Key string
}

func touch(s *Scope, c *Conn, k *Session) {
	s.Name = "x"
	s.Hits++
	c.ID = 1
	k.Key = "y"
	c.Key = "z"
}
""",
    # generic code using the annotated types
    "generic": """package gen

import "m/d"

type Box[T any] struct{ V T }

func Map[T, U any](xs []T, f func(T) U) []U {
	var out []U
	for _, x := range xs {
		out = append(out, f(x))
	}
	return out
}

func use(p *d.T) {
	b := Box[*d.T]{V: p}
	b.V.X = 1
	_ = Map([]int{1}, func(i int) d.T { return d.T{X: i} })
	var z Box[d.TT]
	_ = z
}
""",
    # annotations on unusual declarations
    "odd": """package gen

import "m/d"

// @immutable
// @constructor
// @implements
// @implements &
type A struct{ X int }

// @immutable
type (
	B struct{ Y int }
	// @constructor NewC
	C struct{ Z int }
)

// @testonly
// @packageonly
func (A) M() {}

// @immutable
type F func()

// @immutable
type I interface{ M() }

// @implements I
// @implements &I
// @implements d.I
type E = A

var _ = func() int { var a A; a.X = 1; var b B; b.Y++; _ = C{}; return 0 }()

var _ d.S
""",
}


# packages of several files: where a file ends, what it imports, and what it leaves to its siblings
MULTI = {
    # directives behind the last declaration of a file, files without declarations, a file that is only a comment
    "eof": {
        "a_last.go": "package gen\n\nimport \"m/d\"\n\nfunc f(p *d.T) { p.X = 1 }\n\nvar Zero = d.T{} // @ignore CTOR01",
        "b_tail.go": "package gen\n\nimport \"m/d\"\n\nvar One = d.T{X: 1}\n\n// @ignore CTOR01\n",
        "c_tailblock.go": "package gen\n\nvar two = 2\n/* @ignore ALL */",
        "d_nodecl.go": "// @ignore ALL\npackage gen\n\n// @ignore IMM\n",
        "e_imports.go": "package gen\n\nimport _ \"m/d\" // @ignore PKGO01\n// @immutable\n",
        "f_empty.go": "package gen",
    },
    # nested directives with the same code list (inline under file-level), the nested one being the package's last directive,
    # and an unsuppressed violation between the directives of another file
    "nestedignore": {
        "record.go": "package gen\n\nimport \"m/d\"\n\nvar zero d.T // @ignore CTOR03\n\nfunc Rename(p *d.T) {\n\tp.X = 1\n}\n\nvar one = d.T{X: 1} // @ignore CTOR01\n",
        "zz_generated.go": "// @ignore IMM01\npackage gen\n\nimport \"m/d\"\n\nfunc genA(p *d.T) {\n\tp.X = 2\n}\n\nfunc genB(p *d.T) {\n\tp.X = 3 // @ignore IMM01\n}\n",
    },
    # an alias of an annotated type declared in one file and used in files that do not import the declaring package
    "splitalias": {
        "alias.go": "package gen\n\nimport \"m/d\"\n\ntype Tok = d.PT\n\ntype Imm = d.T\n\ntype Tst = *d.TT\n\nvar Fn = d.PF\n\nvar Tf = d.TF\n",
        "use.go": "package gen\n\nfunc use(t *Tok, i *Imm) Tst {\n\t_ = Tok{X: 1}\n\ti.X = 2\n\t_ = Imm{X: 3}\n\t_ = Fn(4) + Tf(5)\n\treturn nil\n}\n\nvar g = Tok{X: 6}\n",
        "use2.go": "package gen\n\nimport \"fmt\"\n\nfunc use2() {\n\tvar t Tok\n\tfmt.Println(t, new(Imm), Tst(nil))\n}\n",
    },
}


def generated_programs():
    out = []
    for name, src in GENERATED.items():
        out.append({"id": "C10_" + name, "pkgs": [{"path": "m/d", "name": "d", "files": [{"name": "d/d.go", "src": gen_all.D_SRC}]},
                                                    {"path": "m/gen", "name": "gen", "files": [{"name": "gen/%s.go" % name, "src": src}]}]})
    # a package all of whose files lie under an excluded path (default exclude-paths: testdata), imported by an analysed package
    out.append({"id": "C10_excludedpkg", "pkgs": [
        {"path": "m/d", "name": "d", "files": [{"name": "d/d.go", "src": gen_all.D_SRC}]},
        {"path": "m/xtestdatax/fix", "name": "fix", "files": [{"name": "xtestdatax/fix/fix.go",
                                                              "src": "package fix\n\nimport \"m/d\"\n\n// Sample is immutable.\n// @immutable\ntype Sample struct{ X int }\n\nfunc Make() *d.T { return d.NewT() }\n"}]},
        {"path": "m/gen", "name": "gen", "files": [{"name": "gen/use.go",
                                                    "src": "package gen\n\nimport (\n\t\"m/d\"\n\t\"m/xtestdatax/fix\"\n)\n\nfunc f(s *fix.Sample, p *d.T) {\n\ts.X = 1\n\tp.X = 2\n\t_ = fix.Make()\n}\n"}]}]})
    for name, files in MULTI.items():
        out.append({"id": "C10_" + name, "pkgs": [{"path": "m/d", "name": "d", "files": [{"name": "d/d.go", "src": gen_all.D_SRC}]},
                                                    {"path": "m/gen", "name": "gen", "files": [{"name": "gen/" + f, "src": src} for f, src in sorted(files.items())]}]})
    # many independent packages that each claim an imported interface (concurrent passes over a shared dependency)
    many = "\n".join("// I%d is a port.\ntype I%d interface {\n\tM%d(n int) string\n}\n" % (i, i, i) for i in range(48))
    pkgs = [{"path": "m/d", "name": "d", "files": [{"name": "d/d.go", "src": gen_all.D_SRC}, {"name": "d/ports.go", "src": "package d\n\n" + many}]}]
    for i in range(48):
        j = (i + 1) % 48
        pkgs.append({"path": "m/ad%d" % i, "name": "ad%d" % i,
                     "files": [{"name": "ad%d/a.go" % i, "src": "package ad%d\n\nimport \"m/d\"\n\n// A adapts two ports of d.\n// @implements d.I%d\n// @implements d.I%d\n"
                                "type A struct{}\n\nfunc (A) M%d(n int) string { return \"\" }\n\nfunc (A) M%d(n int) string { return \"\" }\n\nvar _ d.S\n" % (i, i, j, i, j)}]})
    out.append({"id": "C10_adapters", "pkgs": pkgs})
    return out


def run(ctx):
    if ctx.replay:
        obj = json.load(open(ctx.replay))
        if obj.get("kind") == "program":
            return progcheck.replay_file(ctx, ctx.replay, project=lambda ds: set())
        print("re-run ./bin/check C10 (the replay file documents the failing corpus / run)")
        return 2
    thorough = ctx.tier == "thorough"
    rng = random.Random(ctx.seed)
    # (0) the model: every walk terminates (liveness under fairness, no state constraint)
    ctx.tlc("Immutable", c01.cfg("seq2", emit=False), label="c10_live_imm", coverage=False)
    ctx.tlc("Constructor", c02.cfg("seq2", emit=False), label="c10_live_ctor")
    r = ctx.tlc("Immutable", c01.cfg("seq2", emit=False, dev='{"LeakWalkState"}', live=False), label="c10_dev", allow_violation=True, count=False)
    if r["violated"] is None:
        raise vlib.ToolError("LeakWalkState does not make the model crash: vacuous")

    # (a) generated programs: package-level initialiser placements (the crash found in the pinned tree), "generated code" shapes
    scs, _ = progcheck.tlc_scenarios(ctx, "Immutable", c01.cfg("seq2"), "c10_imm_seq2")
    pk = [sc for sc in scs if any(c["kind"] == "pkgvar" for f in sc["files"] for c in f)]
    items = []
    for i, sc in enumerate(progcheck.sample(pk, 4000 if thorough else 600, ctx.seed)):
        prog, exp, _ = gen_imm.build_imm(sc, "C10_imm_%d" % i)
        items.append(prog)
    items += generated_programs()
    nrun = 0
    crashes = []
    for c in (None, {"scan_tests": "true"}):
        for seq in (False, True):
            res = proglib.run_vh(ctx, items, cfg=c, sequential=seq)
            died = [r for r in res.values() if r.get("batch_crash")]
            if died:
                # reproduce under the same conditions (the whole batch, concurrently)
                died2 = []
                for _attempt in range(8):   # an interleaving-dependent crash: give it several chances to show again
                    res2 = proglib.run_vh(ctx, items, cfg=c, sequential=seq)
                    died2 = [r for r in res2.values() if r.get("batch_crash")]
                    if died2:
                        break
                if died2 and len(ctx.violations) < 3:
                    ctx.violation("the analyzers crashed the process while %d programs were analysed concurrently (twice): %s" % (len(items), died[0]["fail"][:300]),
                                  {"kind": "batch", "programs": len(items), "fail": died[0]["fail"], "cfg": c, "sequential": seq})
                    break
                if not died2:
                    raise vlib.ToolError("a concurrent crash of the batch did not reproduce: %s" % died[0]["fail"][:300])
                res = {k: v for k, v in res.items() if not v.get("batch_crash")}
            for prog in items:
                if prog["id"] not in res:
                    continue
                r = res[prog["id"]]
                nrun += 1
                if r.get("err"):
                    raise vlib.ToolError("generated program does not load: %s %s" % (prog["id"], r["err"][:400]))
                if r.get("fail"):
                    crashes.append((prog, c, r["fail"]))
    seen = set()
    for prog, c, fail in crashes:
        key = fail.split("\n")[0][:80]
        if key in seen or len(ctx.violations) >= 3:
            continue
        seen.add(key)
        rr = proglib.run_vh(ctx, [prog], cfg=c)[prog["id"]]
        if not rr.get("fail"):
            # crashes that need concurrency may not reproduce alone: run the batch shape again
            rr = proglib.run_vh(ctx, [prog] * 1, cfg=c)[prog["id"]]
        ctx.violation("analysis of %s failed: %s" % (prog["id"], fail.split("\n")[0][:300]),
                      {"kind": "program", "program": prog, "expected": [], "cats": [], "cfg": c, "fail": fail[:3000],
                       "reproduced_alone": bool(rr.get("fail"))})
    # the same shapes through the real binary and go vet (text and json mode): exit status, no crash
    exe = ctx.binary("gogreement")
    for prog in generated_programs():
        for drv in ("binary", "binary_text", "vet"):
            if drv == "vet":
                r = proglib.run_vet(ctx, prog)
            else:
                r = proglib.run_binary(ctx, prog, text=(drv == "binary_text"))
            nrun += 1
            bad = r.get("fail") or (drv == "binary_text" and r["rc"] not in (0, 3)) or (drv == "binary" and r["rc"] != 0)
            if bad and len(ctx.violations) < 3:
                r2 = proglib.run_vet(ctx, prog) if drv == "vet" else proglib.run_binary(ctx, prog, text=(drv == "binary_text"))
                bad2 = r2.get("fail") or (drv == "binary_text" and r2["rc"] not in (0, 3)) or (drv == "binary" and r2["rc"] != 0)
                ctx.violation("%s on %s: %s" % (drv, prog["id"], (r.get("fail") or "exit status %s: %s" % (r["rc"], r["stderr"][-300:]))[:400].replace("\n", " | ")),
                              {"kind": "program", "program": prog, "expected": [], "cats": [], "driver": drv, "stderr": r["stderr"][-3000:],
                               "reproduced": bool(bad2)})
    # repeated standalone runs of the many-independent-packages module (concurrent passes)
    adapters = generated_programs()[-1]
    root = os.path.join(ctx.scratch, "adapters")
    proglib.write_module(root, adapters)
    for k in range(12 if thorough else 5):
        r = subprocess.run([exe, "-json", "./..."], cwd=root, env=vlib.go_env(), stdout=subprocess.PIPE, stderr=subprocess.PIPE, text=True, timeout=300)
        nrun += 1
        if (r.returncode != 0 or vlib.crashed(r.stderr)) and len(ctx.violations) < 3:
            ctx.violation("standalone run %d over 48 independent packages crashed: %s" % (k, r.stderr[:300].replace("\n", " | ")),
                          {"kind": "program", "program": adapters, "expected": [], "cats": [], "stderr": r.stderr[:3000]})
            break

    # (b) annotated corpora: clones of standard-library packages with annotations injected at random declarations
    events = []
    nseeds = 6 if thorough else 1
    npk = 0
    for s in range(nseeds):
        root, pkgs = corpus.build_annotated_corpus(ctx, ctx.seed * 100 + s, 60 if thorough else 16)
        npk += len(pkgs)
        for p in pkgs:
            events.append({"ev": "Annotated", "p": p})
        runs = [("binary", ()), ("vet", ("config.scan-tests=true",))] + ([("binary", ("config.scan-tests=true",)), ("vet", ())] if thorough else [])
        for drv, args in runs:
            ev, ok, err, so = corpus.run_traced(ctx, root, ["./..."], driver=drv, cfg_args=args, prefix="corp/", timeout=1500)
            if not ev:
                raise vlib.ToolError("no trace recorded over the annotated corpus (%s): %s" % (drv, err[:400]))
            events.append({"ev": "Reset"})
            events += ev
            events.append({"ev": "Finish", "ok": ok, "detail": err[:400], "corpus_seed": ctx.seed * 100 + s, "driver": drv})
    path = os.path.join(ctx.scratch, "c10_corpus.ndjson")
    with open(path, "w") as f:
        for e in events:
            f.write(json.dumps(e) + "\n")
    r = ctx.tlc("CorpusTrace", c09.TCFG % path, workers=1, label="c10_corpus", allow_violation=True, timeout=2400, jvm="-XX:ParallelGCThreads=2 -Xmx3g -Xss64m")
    accepted = len(events)
    if r["violated"] is not None:
        if r["violated"] != "POSTCONDITION":
            raise vlib.ToolError("CorpusTrace failed: %s" % r["violated"])
        m = re.search(r"line (\d+)", r["reject"] or "")
        ln = int(m.group(1))
        accepted = ln - 1
        ev = events[ln - 1]
        ctx.violation("annotated corpus: CorpusTrace rejects %s (an action that never returned, an analyzer error, or a driver that did not finish normally)"
                      % json.dumps(ev)[:500], {"kind": "corpus", "event": ev})
    return ctx.finish("model_checking", {
        "traces_validated_against_impl": nrun + accepted,
        "samples": [{"generated_shapes": sorted(GENERATED)}, {"corpus_events_sample": events[len(events) // 2: len(events) // 2 + 3]}],
        "evaluations": nrun,
        "distinct_nontrivial": len(items) + npk,
        "rule": "TLC: termination of the Immutable and Constructor walks under fairness, and the crash state reachable under LeakWalkState; replay: "
                "every 2-declaration Immutable program containing a package-level initialiser, 'generated code' shapes (//line directives beyond the "
                "end of the file with trailing @ignore, directives behind the last declaration / in files without declarations, an alias declared in one file and used in siblings that do not import the annotated package, a 70 KB source line, generics, malformed / oddly placed annotations) and 48 independent packages "
                "claiming an imported interface, in process (2 configurations x sequential/parallel), through the real binary (text and json) and go vet; "
                "annotated corpora: %d cloned standard-library packages with annotations, near-misses and @ignore comments injected at seeded random "
                "declarations, analysed by the instrumented build under both drivers, every Start/End/Finish validated by CorpusTrace" % npk,
        "corpus_packages": npk,
        "corpus_events": len(events),
        "exhaustive": False,
    }, assumptions=["a run counts as normal when the standalone binary exits 0 in -json mode / 0 or 3 in text mode and go vet exits 0 or 1 without crash output",
                    "crashes found while replaying the scenarios of the other properties are reported under those properties' checks as well"])
