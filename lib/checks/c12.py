"""C12 - verdicts do not depend on source layout (DESIGN.md 5, C12)."""
import random
import re

import gen_imm
import gen_tonl
import layout
import progcheck
import proglib
import vlib
from checks import c01, c02, c03, c04

FAMILIES = [
    ("Immutable", c01.cfg, gen_imm.build_imm, {"IMM"}, "LeakWalkState", ("Exact", "NoCrash")),
    ("Constructor", c02.cfg, gen_imm.build_ctor, {"CTOR"}, "LeakWalkState", ("Exact",)),
    ("TestOnly", c03.cfg, gen_tonl.build_tonl, {"TONL"}, None, None),
    ("PackageOnly", c04.cfg, gen_tonl.build_pkgo, {"PKGO"}, None, None),
]
ONCE = {"TONL01", "PKGO01"}
KIND_SETS = [("perm",), ("move",), ("comments",), ("blank",), ("gofmt",), ("rename",),
             ("perm", "gofmt"), ("move", "comments", "rename"), ("perm", "move", "gofmt"), ("comments", "blank", "rename")]


def using_pkg(prog):
    return prog["pkgs"][-1]["path"] if prog["pkgs"][-1]["name"] != "q" else prog["pkgs"][-1]["path"]


def type_of_line(text):
    for pat, t in ((r"\bo\.TT\b", "o.TT"), (r"\bTT2\b", "d.TT2"), (r"\bTT\b", "d.TT"), (r"\bPT2\b", "d.PT2"), (r"\bPT\b", "d.PT"),
                   (r"\bTA\b", "alias"), (r"\bTP\b", "alias")):
        if re.search(pat, text):
            return t
    return "?"


def project_factory(prog, pkgpath, tagtexts):
    """Keys that are invariant under the transformations: (statement identity, code) for per-reference codes,
    (file kind irrelevant) (type, code) for the once-per-file codes."""
    src = {}
    for pk in prog["pkgs"]:
        for f in pk["files"]:
            src[f["name"]] = f["src"].split("\n")

    def project(diags):
        out = set()
        for d in diags:
            line = src.get(d["file"], [""] * (d["line"] + 1))[d["line"] - 1].strip() if d["file"] in src else ""
            if d["code"] in ONCE:
                out.add(("type", type_of_line(line), d["code"]))
            else:
                out.add(("stmt", layout.RENAME_RE.sub(lambda m: m.group(1) + m.group(2), line.replace("zz", "")), d["code"]))
        return out
    return project


COMPACT = [
    # (body of package u, codes expected as a multiset)
    ("func reset(p, q *d.T) { p.X = 0; q.X = 0 }\n", {"IMM01": 2}),
    ("func bump(p, q *d.T) { p.X++; q.X++; p.X = 0 }\n", {"IMM03": 2, "IMM01": 1}),
    ("func two() (d.T, d.T) { return d.T{X: 1}, d.T{X: 1} }\n", {"CTOR01": 2}),
    ("func both(p *d.T) { if p != nil { p.X = 0 } else { p.X = 0 } }\n", {"IMM01": 2}),
    ("func calls() int { a := d.TF(1); b := d.TF(1); return a + b + d.PF(2) + d.PF(2) }\n", {"TONL02": 2, "PKGO02": 2}),
    ("func news() { _ = new(d.T); _ = new(d.T) }\n", {"CTOR02": 2}),
]


def compact_programs(ctx):
    """Several reported statements on one source line against the gofmt'ed form of the same file: the same references are reported."""
    import collections
    import gen_all
    items = []
    for i, (body, want) in enumerate(COMPACT):
        src = "package u\n\nimport \"m/d\"\n\n" + body
        for tag, text in (("compact", src), ("gofmt", layout.gofmt(src))):
            items.append(({"id": "C12_compact_%d_%s" % (i, tag), "pkgs": [
                {"path": "m/d", "name": "d", "files": [{"name": "d/d.go", "src": gen_all.D_SRC}]},
                {"path": "m/u", "name": "u", "files": [{"name": "u/u.go", "src": text}]}]}, want, tag, body))
    res = proglib.run_vh(ctx, [it[0] for it in items])
    for prog, want, tag, body in items:
        r = res[prog["id"]]
        if r.get("err"):
            raise vlib.ToolError("compact program does not load: %s" % r["err"][:400])

        def count(rr):
            if rr.get("fail"):
                return None
            c = collections.Counter(d["code"] for d in rr["diags"] if d["file"].startswith("u/"))
            return {k: v for k, v in c.items() if k in want}
        got = count(r)
        if got != want:
            got2 = count(proglib.run_vh(ctx, [prog])[prog["id"]])
            if got2 == want:
                raise vlib.ToolError("mismatch did not reproduce: %s" % prog["id"])
            if len(ctx.violations) < 3:
                ctx.violation("statements sharing a line (%s layout) %r: expected %s reports, observed %s" % (tag, body.strip(), want, got2),
                              {"kind": "layout", "program": prog, "expected_counts": want, "observed_counts": got2, "cats": []})
    return len(items)


def run(ctx):
    if ctx.replay:
        import json
        obj = json.load(open(ctx.replay))
        prog = obj["program"]
        r = proglib.run_vh(ctx, [prog])[prog["id"]]
        if "expected_counts" in obj or obj.get("scenario", {}).get("transform", [""])[0].startswith("header"):
            import collections
            if "expected_counts" in obj:
                c = collections.Counter(d["code"] for d in r.get("diags", []) if d["file"].startswith("u/"))
                bad = r.get("fail") or {k: v for k, v in c.items() if k in obj["expected_counts"]} != obj["expected_counts"]
            else:
                code = obj["code"]
                got = {k for k in proglib.keyset([d for d in r.get("diags", []) if d["code"] == code]) if k[0].startswith("u/")}
                bad = r.get("fail") or got != set(tuple(x) for x in obj["expected"])
            print(json.dumps({"fail": r.get("fail"), "diags": [(d["file"], d["line"], d["code"]) for d in r.get("diags", [])][:20]}))
            if r.get("err"):
                return 2
            if bad:
                print("VIOLATION property=C12 replay=%s" % ctx.replay)
                return 1
            return 0
        pr = project_factory(prog, None, None)
        got = pr([d for d in r["diags"] if d["code"] and d["code"][:-2] in set(obj["cats"])])
        exp = set(tuple(x) for x in obj["expected"])
        print(json.dumps({"expected": sorted(exp), "observed": sorted(got), "fail": r.get("fail")}))
        if r.get("err"):
            return 2
        if r.get("fail") or got != exp:
            print("VIOLATION property=C12 replay=%s" % ctx.replay)
            return 1
        return 0
    thorough = ctx.tier == "thorough"
    rng = random.Random(ctx.seed)
    total = pairs = 0
    samples = []
    nontrivial = 0
    by_kind = {}
    for module, cfgfn, build, cats, dev, inv in FAMILIES:
        if dev:
            # the model is layout-independent *because* the walk context is reset: without the reset Exact fails
            c01.nonvacuous(ctx, module, [(dev, "seq2", inv)], cfgfn)
        modes = ["seq2", "seq3"] if thorough else ["seq2"]
        scs = []
        for mode in modes:
            s1, r = progcheck.tlc_scenarios(ctx, module, cfgfn(mode), "c12_%s_%s" % (module.lower(), mode))
            scs += s1
        total += len(scs)
        pick = progcheck.sample(scs, 8000 if thorough else 700, ctx.seed)
        base_items, var_items = [], []
        for i, sc in enumerate(pick):
            prog, exp, tags = build(sc, "C12_%s_%d" % (module, i))
            pkgpath = {"d": "m/d", "u": "m/u", "v": "m/vv"}[sc["pkg"]]
            pr = project_factory(prog, pkgpath, tags)
            # expectation in layout-invariant keys, from the spec's own expectation
            e_inv = pr([{"file": fn, "line": ln, "code": code} for (fn, ln, code) in exp])
            kinds = KIND_SETS[rng.randrange(len(KIND_SETS))]
            by_kind["+".join(kinds)] = by_kind.get("+".join(kinds), 0) + 1
            tprog, _ = layout.transform(prog, pkgpath, rng, kinds)
            if rng.random() < 0.5:
                # the declarations of the annotated package are spread over files that sort before / after each other
                tprog = layout.scatter_decls(tprog, "m/d", "d/d.go", rng)
                kinds = kinds + ("declfiles",)
                by_kind["declfiles"] = by_kind.get("declfiles", 0) + 1
            tprog["id"] = prog["id"] + "_t"
            meta = {"module": module, "scenario": {k: v for k, v in sc.items() if k != "expect"}, "transform": list(kinds)}
            base_items.append((prog, e_inv, meta, pr))
            var_items.append((tprog, e_inv, meta, project_factory(tprog, pkgpath, tags)))
        for items in (base_items, var_items):
            res = proglib.run_vh(ctx, [it[0] for it in items])
            for prog, e_inv, meta, pr in items:
                r = res[prog["id"]]
                pairs += 1
                if r.get("err"):
                    raise vlib.ToolError("transformed program does not load (transformation bug): %s %s" % (r["err"][:500], meta))
                got = pr([d for d in r["diags"] if d["code"] and d["code"][:-2] in cats]) if not r.get("fail") else None
                if e_inv:
                    nontrivial += 1
                if got != e_inv:
                    # reproduce alone
                    r2 = proglib.run_vh(ctx, [prog])[prog["id"]]
                    got2 = pr([d for d in r2["diags"] if d["code"] and d["code"][:-2] in cats]) if not r2.get("fail") else None
                    if got2 == e_inv:
                        raise vlib.ToolError("mismatch did not reproduce: %s" % meta)
                    if len(ctx.violations) < 3:
                        ctx.violation("%s after %s: expected %s, observed %s%s" % (module, meta["transform"] if prog["id"].endswith("_t") else "no transformation",
                                                                                     sorted(e_inv), sorted(got2) if got2 is not None else None,
                                                                                     (" " + r2["fail"][:200]) if r2.get("fail") else ""),
                                      {"kind": "layout", "program": prog, "expected": sorted(e_inv), "observed": sorted(got2) if got2 else None,
                                       "cats": sorted(cats), "scenario": meta})
                elif e_inv and len(samples) < 3 and prog["id"].endswith("_t"):
                    samples.append({"scenario": meta, "expected": sorted(e_inv), "transformed_source": prog["pkgs"][-1]["files"][0]["src"][:1500]})
    # programs with @ignore comments (Scope.tla scenarios): the comment travels with its declaration / statement
    import gen_scope
    from checks import c07
    scs, r = progcheck.tlc_scenarios(ctx, "Scope", c07.cfg("all" if thorough else "quick"), "c12_scope")
    total += len(scs)
    scs = [sc for sc in scs if not sc.get("ld") and sc["slot"] not in ("F0", "F0d", "G0") and sc.get("slot2") != "F0" and sc["kind"] in ("IMM01", "CTOR01", "CTOR03", "TONL01", "TONL02", "PKGO01", "PKGO03")]
    pick = progcheck.sample(scs, 3000 if thorough else 500, ctx.seed)
    items = []
    for i, sc in enumerate(pick):
        prog, exp, _pos = gen_scope.build_scope(sc, "C12_scope_%d" % i)
        code = gen_scope.CODE.get(sc["kind"], sc["kind"])
        if code in ONCE and sc["slot"] not in ("D5", "TD5"):
            # the once-per-file codes are compared as (type, code) per using package: keep the uses in one file only,
            # otherwise the second file's own report masks a report that vanished from the first
            for f in prog["pkgs"][-1]["files"]:
                if f["name"] == "u/f2.go":
                    f["src"] = "package u\n\nfunc fn4() {}\n"
            exp = {k for k in exp if k[0] != "u/f2.go"}
        pr = project_factory(prog, "m/u", None)
        e_inv = pr([{"file": fn, "line": ln, "code": c} for (fn, ln, c) in exp])
        kinds = rng.choice([("perm",), ("move",), ("blank",), ("gofmt",), ("perm", "gofmt"), ("move", "blank")])
        by_kind["ignore:" + "+".join(kinds)] = by_kind.get("ignore:" + "+".join(kinds), 0) + 1
        tprog, _ = layout.transform(prog, "m/u", rng, kinds)
        tprog["id"] = prog["id"] + "_t"
        meta = {"module": "Scope", "scenario": {k: sc[k] for k in ("kind", "slot", "slot2", "list")}, "transform": list(kinds)}
        items.append((prog, e_inv, meta, pr, code))
        items.append((tprog, e_inv, meta, project_factory(tprog, "m/u", None), code))
    res = proglib.run_vh(ctx, [it[0] for it in items])
    for prog, e_inv, meta, pr, code in items:
        r = res[prog["id"]]
        pairs += 1
        if r.get("err"):
            raise vlib.ToolError("transformed program does not load (transformation bug): %s %s" % (r["err"][:500], meta))
        got = pr([d for d in r["diags"] if d["code"] == code]) if not r.get("fail") else None
        nontrivial += 1 if e_inv else 0
        if got != e_inv:
            r2 = proglib.run_vh(ctx, [prog])[prog["id"]]
            got2 = pr([d for d in r2["diags"] if d["code"] == code]) if not r2.get("fail") else None
            if got2 == e_inv:
                raise vlib.ToolError("mismatch did not reproduce: %s" % meta)
            if len(ctx.violations) < 3:
                ctx.violation("program with `@ignore` (%s) after %s: expected %s, observed %s"
                              % (meta["scenario"], meta["transform"] if prog["id"].endswith("_t") else "no transformation", sorted(e_inv),
                                 sorted(got2) if got2 is not None else r2.get("fail", "")[:200]),
                              {"kind": "layout", "program": prog, "expected": sorted(e_inv), "observed": sorted(got2) if got2 else None,
                               "cats": [code[:-2]], "scenario": meta})
    # (e) statements sharing a line: gofmt gives each statement its own line; every reference is reported in both layouts
    compact_n = compact_programs(ctx)
    pairs += compact_n
    # (f) the file-level directive with and without an empty line between it and the package clause (both file-level in Scope.tla)
    hdr = [sc for sc in progcheck.tlc_scenarios(ctx, "Scope", c07.cfg("all" if thorough else "quick"), "c12_scope_hdr")[0]
           if not sc.get("ld") and sc["slot"] in ("F0", "F0d") and sc.get("slot2", "none") == "none"]
    hitems = []
    for i, sc in enumerate(progcheck.sample(hdr, 400 if thorough else 80, ctx.seed)):
        prog, exp, _pos = gen_scope.build_scope(sc, "C12_hdr_%d" % i)
        code = gen_scope.CODE.get(sc["kind"], sc["kind"])
        f1 = [f for f in prog["pkgs"][-1]["files"] if f["name"] == "u/f1.go"][0]
        k = f1["src"].index("package u")
        head = f1["src"][:k]
        if not head.strip():
            continue
        import copy
        for j, sep in enumerate(("\n", "\n\n", "\n\n\n", "\n// Package u is the using package.\n")):
            if sc["slot"] == "F0" and sep.startswith("\n//"):
                pass   # the directive and the package documentation in one comment group: still before the package clause
            tp = copy.deepcopy(prog)
            tf = [f for f in tp["pkgs"][-1]["files"] if f["name"] == "u/f1.go"][0]
            tf["src"] = head.rstrip("\n") + sep + f1["src"][k:]
            tp["id"] = "%s_h%d" % (prog["id"], j)
            shift = tf["src"].count("\n") - f1["src"].count("\n")
            hitems.append((tp, {(fn, ln + (shift if fn == "u/f1.go" else 0), c) for (fn, ln, c) in exp}, code,
                           {"module": "Scope", "scenario": {k2: sc[k2] for k2 in ("kind", "slot", "list")}, "transform": ["header separated by %r" % sep]}))
    res = proglib.run_vh(ctx, [it[0] for it in hitems])
    for prog, exp, code, meta in hitems:
        r = res[prog["id"]]
        pairs += 1
        if r.get("err"):
            raise vlib.ToolError("header variant does not load: %s %s" % (r["err"][:500], meta))
        got = None if r.get("fail") else {k for k in proglib.keyset([d for d in r["diags"] if d["code"] == code]) if k[0].startswith("u/")}
        nontrivial += 1 if exp else 0
        if got != exp:
            r2 = proglib.run_vh(ctx, [prog])[prog["id"]]
            got2 = None if r2.get("fail") else {k for k in proglib.keyset([d for d in r2["diags"] if d["code"] == code]) if k[0].startswith("u/")}
            if got2 == exp:
                raise vlib.ToolError("mismatch did not reproduce: %s" % meta)
            if len(ctx.violations) < 3:
                ctx.violation("file-level `@ignore` (%s), %s: expected %s, observed %s" % (meta["scenario"], meta["transform"][0], sorted(exp), sorted(got2) if got2 is not None else r2.get("fail", "")[:200]),
                              {"kind": "layout", "program": prog, "expected": sorted(exp), "observed": sorted(got2) if got2 else None, "cats": [code[:-2]], "code": code, "scenario": meta})
    return ctx.finish("model_checking", {
        "traces_validated_against_impl": pairs,
        "samples": samples,
        "evaluations": pairs,
        "distinct_nontrivial": nontrivial,
        "rule": "programs of the sequence spaces of the four checker specifications (2-3 declarations over 1-2 files; the specification's "
                "expectation is per declaration, i.e. layout-free) are analysed as generated and after a random composition of: permuting the "
                "top-level declarations, moving one to another file, spreading the declarations of the annotated package d over several files in a random order (declfiles), inserting ordinary comments / blank lines, mis-formatting + gofmt, "
                "renaming locals; diagnostics are compared in layout-invariant keys (statement text, code) resp. (type, code) for the "
                "once-per-file codes; distinct_nontrivial = runs with a non-empty expectation",
        "scenarios_emitted_by_tlc": total,
        "by_transformation": by_kind,
        "exhaustive": False,
    }, assumptions=["comments are inserted only where they do not become doc comments; blank lines never between a comment group and its code",
                    "moving a declaration between files keeps it in a file of the same kind (test / non-test)"])
