"""C06 - annotations cross package boundaries intact, whatever the driver or run set (DESIGN.md 5, C06)."""
import concurrent.futures as cf
import itertools
import json
import os
import random
import shutil

import gen_xpkg
import progcheck
import proglib
import vlib

PCFG = """SPECIFICATION Spec
CONSTANTS
  Mode = "%(mode)s"
  Deviations = %(dev)s
  Emit = FALSE
  Shape = "%(shape)s"
  Driver = "%(driver)s"
INVARIANTS SameDiags ReadsOK FactsBeforeUse ExportBeforeReturn OnlyNeeded
PROPERTIES CachedOnce %(live)s
VIEW View
"""

TCFG = """SPECIFICATION TraceSpec
CONSTANTS
  TraceFile = "%s"
INVARIANTS OneConfig OneDigestPerFact
POSTCONDITION TraceAccepted
CHECK_DEADLOCK FALSE
"""


def pcfg(mode, shape, driver, dev="{}", live=False):
    return PCFG % dict(mode=mode, shape=shape, driver=driver, dev=dev, live="Termination" if live else "")


def model_runs(ctx, thorough):
    combos = [("scheds", "chain", "inproc"), ("scheds", "diamond", "vet"), ("progs", "diamond", "inproc"), ("progs", "chain", "vet")]
    if thorough:
        combos = [(m, s, d) for m in ("scheds", "progs") for s in ("chain", "diamond") for d in ("inproc", "vet")]
    for i, (m, s, d) in enumerate(combos):
        ctx.tlc("Pipeline", pcfg(m, s, d, live=(i == 0)), label="pipe_%s_%s_%s" % (m, s, d), coverage=(i == 0), timeout=1500)
    zero = [a for lab, cov in ctx.coverage.items() for a, n in cov.items() if n == 0 and not a.endswith("Finished")]
    if zero:
        raise vlib.ToolError("vacuous actions in Pipeline: %s" % zero)
    for dev, inv in (("NoExportWithoutAnn", ("ExportBeforeReturn", "FactsBeforeUse", "SameDiags")), ("TransitiveFacts", ("ReadsOK", "SameDiags"))):
        r = ctx.tlc("Pipeline", pcfg("progs", "chain", "inproc", dev='{"%s"}' % dev), label="pipe_dev_" + dev, allow_violation=True, count=False)
        if r["violated"] not in inv:
            raise vlib.ToolError("deviation %s does not violate %s (got %s): vacuous" % (dev, inv, r["violated"]))


def restrict(expect, named):
    dirs = {n.split("/", 1)[1] for n in named}
    return {k for k in expect if k[0].split("/")[0] in dirs}


def validate_traces(ctx, traces, label):
    """Concatenate recorded runs (Reset ... Finish) and let TLC validate them against PipelineTrace."""
    path = os.path.join(ctx.scratch, label + ".ndjson")
    n_events = 0
    with open(path, "w") as out:
        for t in traces:
            out.write('{"ev":"Reset"}\n')
            for line in open(t):
                if line.strip():
                    out.write(line)
                    n_events += 1
            out.write('{"ev":"Finish"}\n')
    r = ctx.tlc("PipelineTrace", TCFG % path, workers=1, label=label, allow_violation=True, timeout=1800, jvm="-XX:ParallelGCThreads=2 -Xmx3g")
    return r, path, n_events


def locate_rejected(path, reject):
    import re
    m = re.search(r"line (\d+)", reject or "")
    if not m:
        return None, None
    ln = int(m.group(1))
    lines = open(path).read().splitlines()
    # which run (index of the preceding Reset)
    run = sum(1 for x in lines[:ln] if '"Reset"' in x) - 1
    return run, lines[ln - 1] if ln - 1 < len(lines) else None


def run(ctx):
    if ctx.replay:
        obj = json.load(open(ctx.replay))
        if obj.get("kind") == "program":
            return progcheck.replay_file(ctx, ctx.replay)
        print("replay of trace rejections: re-run ./bin/check C06; the replay file documents the rejected event")
        return 2
    thorough = ctx.tier == "thorough"
    rng = random.Random(ctx.seed)
    model_runs(ctx, thorough)

    nvar = 40 if thorough else 5
    variants = [gen_xpkg.variant(rng) for _ in range(nvar)]
    variants[0]["shape"], variants[1 % nvar]["shape"] = "chain", "diamond"
    progs = [gen_xpkg.build(v, "C06_%d" % i) + (v,) for i, v in enumerate(variants)]
    variants[0]["unsafe"], variants[1 % nvar]["unsafe"] = True, False
    allp = ["m/d", "m/u", "m/w", "m/dotu"]
    subsets = [list(c) for k in (1, 2, 3) for c in itertools.combinations(allp, k)]
    runs = mism = 0
    samples = []

    pending = []
    # (b1) in-process driver: every run set x sequential/parallel x with/without gob round trip
    for seq in (False, True):
        for sanity in (True, False):
            items = []
            for prog, exp, v in progs:
                for sub in subsets:
                    p2 = dict(prog)
                    p2["id"] = "%s_%s" % (prog["id"], "+".join(s.split("/")[-1] for s in sub))
                    p2["named"] = sub
                    items.append((p2, restrict(exp, sub), {"variant": v, "named": sub, "driver": "inproc", "sequential": seq, "gob": sanity}))
            rep = progcheck.Replay(ctx, None)
            rep.check(items, sequential=seq, sanity=sanity, project=lambda ds: proglib.keyset(ds))
            try:
                rep.settle(project=lambda ds: proglib.keyset(ds),
                           describe=lambda m: "in-process driver, named %s, sequential=%s, gob round trip=%s, variant %s" % (m["named"], m["sequential"], m["gob"], m["variant"]))
            except vlib.ToolError as e:
                # a mismatch that reproduced neither alone nor in its batch: remember it and go on - the later stages (real drivers,
                # wide module) decide whether analyses interfere; it is raised at the end if nothing else was found
                pending.append(str(e))
            runs += rep.run
            samples = samples or rep.samples[:1]
    if ctx.violations:
        return ctx.finish("model_checking", {"evaluations": runs, "distinct_nontrivial": runs, "samples": samples or [{}], "traces_validated_against_impl": runs})

    # (b2) real binary and go vet, all packages and subsets, with the instrumented build recording traces
    gg = ctx.binary("ggtrace")
    real = ctx.binary("gogreement")
    jobs = []
    for prog, exp, v in progs:
        subs = subsets if thorough else [allp, ["m/w"], ["m/u", "m/w"], ["m/d"]]
        for sub in subs:
            for drv in ("binary", "vet"):
                if drv == "vet" and not thorough and sub not in (allp, ["m/w"]):
                    continue
                jobs.append((prog, exp, v, sub, drv))

    def one(j):
        prog, exp, v, sub, drv = j
        tr = os.path.join(ctx.scratch, "tr_%s_%s_%s.ndjson" % (prog["id"], "+".join(s.split("/")[-1] for s in sub), drv))
        env = {"VERIF_TRACE": tr, "VERIF_TRACE_PREFIX": "m/"}
        p2 = dict(prog)
        p2["id"] = prog["id"] + drv + "+".join(s.split("/")[-1] for s in sub)
        if drv == "binary":
            r = proglib.run_binary(ctx, p2, named=sub, binary=gg, extra_env=env)
            r0 = proglib.run_binary(ctx, p2, named=sub, binary=real)   # the unmodified binary must agree with the instrumented one
        else:
            r = proglib.run_vet(ctx, p2, named=sub, binary=gg, extra_env=env)
            r0 = None
        return j, r, r0, tr

    traces = {"binary": [], "vet": []}
    with cf.ThreadPoolExecutor(8) as ex:
        results = list(ex.map(one, jobs))
    for (prog, exp, v, sub, drv), r, r0, tr in results:
        runs += 1
        want = restrict(exp, sub)
        got = proglib.keyset(r.get("diags") or [])
        bad = r.get("fail") or got != want or (r0 is not None and (r0.get("fail") or proglib.keyset(r0.get("diags") or []) != want))
        if bad:
            # reproduce alone with the unmodified binary
            p2 = dict(prog)
            p2["id"] = prog["id"] + "_again"
            rr = proglib.run_binary(ctx, p2, named=sub, binary=real) if drv == "binary" else proglib.run_vet(ctx, p2, named=sub, binary=real)
            got2 = proglib.keyset(rr.get("diags") or [])
            if not rr.get("fail") and got2 == want:
                raise vlib.ToolError("%s-driver mismatch did not reproduce: named %s variant %s: %s vs %s" % (drv, sub, v, sorted(got), sorted(want)))
            ctx.violation("%s driver, named %s, variant %s: missing %s, unexpected %s %s"
                          % (drv, sub, v, sorted(want - got2), sorted(got2 - want), (rr.get("fail") or "")[:200]),
                          {"kind": "program", "program": dict(prog, named=sub), "expected": sorted(want), "observed": sorted(got2),
                           "driver": drv, "cats": [], "scenario": {"variant": v, "named": sub}})
            mism += 1
        if os.path.exists(tr):
            traces[drv].append((tr, prog["id"], sub, v))

    # (b2) a dependency whose directory is excluded by configuration: no annotation of it may cross the package boundary, under
    # either driver and in process alike (the drivers start the tool in different working directories)
    for prog, exp, v in progs[:(4 if thorough else 2)]:
        for pat in ("/d/", "/e/"):
            c = {"exclude_paths": pat}
            p2 = dict(prog)
            p2["id"] = prog["id"] + "_ex" + pat.strip("/")
            rin = proglib.run_vh(ctx, [p2], cfg=c)[p2["id"]]
            rb = proglib.run_binary(ctx, p2, cfg=c)
            rv = proglib.run_vet(ctx, p2, cfg=c)
            runs += 3
            ks = {"in-process": None if rin.get("fail") or rin.get("err") else proglib.keyset(rin["diags"]),
                  "standalone": None if rb.get("fail") else proglib.keyset(rb.get("diags") or []),
                  "vet": None if rv.get("fail") else proglib.keyset(rv.get("diags") or [])}
            if ks["in-process"] is not None and pat == "/d/" and ks["in-process"] == exp:
                raise vlib.ToolError("excluding the dependency's directory changes nothing (vacuous): %s" % v)
            located = [k for k in (ks["standalone"] or set()) | (ks["vet"] or set()) if ("/" + k[0]).startswith(pat)]
            if (None in ks.values() or len({frozenset(x) for x in ks.values()}) != 1 or located) and len(ctx.violations) < 3:
                ctx.violation("dependency directory excluded with -config.exclude-paths=%s: the drivers disagree or report inside the excluded directory: %s"
                              % (pat, {k: (sorted(x) if x is not None else "failed") for k, x in ks.items()}),
                              {"kind": "program", "program": p2, "expected": sorted(ks["in-process"] or []), "observed": {k: sorted(x or []) for k, x in ks.items()},
                               "cfg": c, "cats": [], "scenario": {"variant": v, "exclude": pat}})

    # (b3) the annotated package lives in another module (a dependency required at a version, here through a local replace): the
    # importer's diagnostics are those of the single-module twin, under both drivers
    import gen_all
    twin, texp = gen_all.allcodes("C06_twomod", pkgs=("u",))
    root2 = os.path.join(ctx.scratch, "twomod")
    for pk in twin["pkgs"]:
        for f in pk["files"]:
            inlib = pk["path"] == "m/d"
            pth = os.path.join(root2, "lib" if inlib else "", f["name"])
            os.makedirs(os.path.dirname(pth), exist_ok=True)
            open(pth, "w").write(f["src"].replace('"m/d"', '"example.com/lib/d"'))
    open(os.path.join(root2, "go.mod"), "w").write("module m\n\ngo 1.25\n\nrequire example.com/lib v0.0.0\n\nreplace example.com/lib => ./lib\n")
    open(os.path.join(root2, "lib", "go.mod"), "w").write("module example.com/lib\n\ngo 1.25\n")
    import subprocess as _sp
    for drv in ("binary", "vet"):
        cmd = [real, "-json", "./..."] if drv == "binary" else ["go", "vet", "-vettool=" + real, "-json", "./..."]
        r2 = _sp.run(cmd, cwd=root2, env=vlib.go_env(), stdout=_sp.PIPE, stderr=_sp.PIPE, text=True, timeout=300)
        ds, errs = proglib.parse_json_tree(r2.stdout if drv == "binary" else r2.stderr, root2)
        runs += 1
        if errs and "IMPL" not in str(errs) and not ds:
            raise vlib.ToolError("two-module program does not load under %s: %s" % (drv, str(errs)[:400]))
        got = proglib.keyset(proglib.dedup(ds))
        if (vlib.crashed(r2.stderr) or got != texp) and len(ctx.violations) < 3:
            ctx.violation("annotated package in another module (required at a version, replaced by a local directory), %s driver: missing %s, unexpected %s"
                          % (drv, sorted(texp - got)[:6], sorted(got - texp)[:6]),
                          {"kind": "twomodules", "driver": drv, "expected": sorted(texp), "observed": sorted(got)})

    # (b4) a wide module: many unrelated packages full of annotations analysed concurrently by the standalone driver (their annotation
    # readers run in parallel); every importer must see every annotation of its dependency
    NL, NT = (32, 300) if thorough else (24, 200)
    wide = os.path.join(ctx.scratch, "wide")
    os.makedirs(wide, exist_ok=True)
    open(os.path.join(wide, "go.mod"), "w").write("module m\n\ngo 1.25\n")
    for i in range(NL):
        os.makedirs(os.path.join(wide, "l%02d" % i), exist_ok=True)
        os.makedirs(os.path.join(wide, "u%02d" % i), exist_ok=True)
        leaf = ["package l%02d" % i, ""]
        use = ["package u%02d" % i, "", 'import "m/l%02d"' % i, ""]
        for t in range(NT):
            leaf += ["// T%03d is immutable." % t, "// @immutable", "type T%03d struct{ X int }" % t, ""]
            use += ["func f%03d(p *l%02d.T%03d) { p.X = %d }" % (t, i, t, t), ""]
        open(os.path.join(wide, "l%02d" % i, "l.go"), "w").write("\n".join(leaf) + "\n")
        open(os.path.join(wide, "u%02d" % i, "u.go"), "w").write("\n".join(use) + "\n")
    want_n = {"u%02d" % i: NT for i in range(NL)}
    for rep in range(3 if thorough else 2):
        rw = _sp.run([real, "-json", "./..."], cwd=wide, env=vlib.go_env(), stdout=_sp.PIPE, stderr=_sp.PIPE, text=True, timeout=600)
        ds, errs = proglib.parse_json_tree(rw.stdout, wide)
        runs += 1
        got_n = {}
        for dg in proglib.dedup(ds):
            if dg["code"] == "IMM01":
                got_n[dg["file"].split("/")[0]] = got_n.get(dg["file"].split("/")[0], 0) + 1
        if (errs or vlib.crashed(rw.stderr) or got_n != want_n) and len(ctx.violations) < 3:
            short = {k: (got_n.get(k, 0), v) for k, v in want_n.items() if got_n.get(k, 0) != v}
            ctx.violation("wide module (%d unrelated packages with %d @immutable types each, one importer per package), standalone driver, run %d: "
                          "importers that do not see every annotation of their dependency (observed, expected): %s %s"
                          % (NL, NT, rep + 1, dict(list(short.items())[:6]), str(errs)[:200] if errs else ""),
                          {"kind": "wide", "packages": NL, "types": NT, "short": short})
            break

    # (c) trace validation: generated programs, and the repository's own integration fixtures, both drivers
    fixtures = []
    fx_root = os.path.join(vlib.REPO, "testdata", "integration", "src")
    if os.path.isdir(fx_root):
        for name in sorted(os.listdir(fx_root)):
            dst = os.path.join(ctx.scratch, "fx", name)
            shutil.copytree(os.path.join(fx_root, name), dst)
            with open(os.path.join(dst, "go.mod"), "w") as f:
                f.write("module %s\n\ngo 1.25\n" % name)
            fixtures.append((name, dst))
    import subprocess
    fx_diags = {}
    for name, dst in fixtures:
        for drv in ("binary", "vet"):
            tr = os.path.join(ctx.scratch, "trfx_%s_%s.ndjson" % (name, drv))
            env = vlib.go_env({"VERIF_TRACE": tr, "VERIF_TRACE_PREFIX": name + "/"})
            cmd = [gg, "-json", "./..."] if drv == "binary" else ["go", "vet", "-vettool=" + gg, "-json", "./..."]
            r = subprocess.run(cmd, cwd=dst, env=env, stdout=subprocess.PIPE, stderr=subprocess.PIPE, text=True, timeout=300)
            text = r.stdout if drv == "binary" else r.stderr
            ds, errs = proglib.parse_json_tree(text, dst)
            if errs or vlib.crashed(r.stderr):
                ctx.violation("fixture %s under %s driver failed: %s" % (name, drv, (errs or r.stderr)[:300]), {"kind": "fixture", "fixture": name, "driver": drv})
            fx_diags[(name, drv)] = {(d["file"], d["line"], d["code"]) for d in proglib.dedup(ds)}
            if os.path.exists(tr):
                traces[drv].append((tr, "fixture:" + name, ["./..."], None))
        if fx_diags[(name, "binary")] != fx_diags[(name, "vet")] and len(ctx.violations) < 3:
            ctx.violation("fixture %s: standalone and vet drivers disagree: only standalone %s, only vet %s"
                          % (name, sorted(fx_diags[(name, "binary")] - fx_diags[(name, "vet")]), sorted(fx_diags[(name, "vet")] - fx_diags[(name, "binary")])),
                          {"kind": "fixture", "fixture": name})
        runs += 2

    accepted = events = 0
    for drv in ("binary", "vet"):
        if not traces[drv]:
            raise vlib.ToolError("no trace recorded under the %s driver" % drv)
        r, path, n = validate_traces(ctx, [t[0] for t in traces[drv]], "c06_trace_" + drv)
        events += n
        if r["violated"] is None and r["ok"]:
            accepted += len(traces[drv])
            continue
        if r["violated"] != "POSTCONDITION":
            raise vlib.ToolError("PipelineTrace failed on an invariant (%s): %s" % (r["violated"], vlib.tail(r["out"], 30)))
        runi, line = locate_rejected(path, r["reject"])
        what = traces[drv][runi] if runi is not None and runi < len(traces[drv]) else None
        ctx.violation("run %s (named %s, %s driver): PipelineTrace rejects event %s" % (what[1] if what else "?", what[2] if what else "?", drv, (line or "")[:300]),
                      {"kind": "trace", "driver": drv, "run": what[1:] if what else None, "rejected_event": line,
                       "explanation": "Start before its prerequisites, Import from a non-direct import or with a digest that differs from the exported one, "
                                      "End without Export / with an error, or a run that finished with an action still running"})
    if pending and not ctx.violations:
        raise vlib.ToolError(pending[0])
    return ctx.finish("model_checking", {
        "traces_validated_against_impl": accepted + runs,
        "samples": samples + [{"trace_events_sample": [json.loads(x) for x in open(traces["vet"][0][0]).read().splitlines()[:6]]}],
        "evaluations": runs,
        "distinct_nontrivial": runs - 0,
        "rule": "TLC: Pipeline.tla for all schedules (2 shapes x 2 drivers x all run sets) and all abstract programs; replay: %d seeded variants of a "
                "three-package program whose declaring package carries every annotation kind with encoding-stressing values, analysed under every "
                "run set by the in-process driver (sequential/parallel x with/without gob round trip), the real binary and go vet, each compared "
                "with the expectation restricted to the named packages; traces of the instrumented build (both drivers, generated programs and the "
                "repository's integration fixtures) validated by PipelineTrace; every run is non-trivial (non-empty expectation or a dependency-only role)" % nvar,
        "trace_runs_accepted": accepted,
        "trace_events": events,
        "fixtures": [f[0] for f in fixtures],
        "exhaustive": False,
    }, assumptions=["gob is assumed to be the identity on the modelled fields - exactly what the digest comparison in the traces tests on the real values",
                    "go vet's own caching is defeated by unique module paths per run"])
