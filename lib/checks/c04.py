"""C04 - @packageonly enforced against the union of allow-lists (DESIGN.md 5, C04)."""
import gen_tonl
import progcheck
import vlib
from checks import c01

CFG = """SPECIFICATION Spec
CONSTANTS
  Mode = "%(mode)s"
  Deviations = %(dev)s
  Emit = %(emit)s
INVARIANTS Exact NoAnnNoDiag OwnPackageFree %(emitinv)s
PROPERTIES Stable %(live)s
"""


def cfg(mode, emit=True, dev="{}", live=True):
    return CFG % dict(mode=mode, dev=dev, emit="TRUE" if emit else "FALSE", emitinv="EmitInv" if emit else "",
                      live="Termination" if live else "")


def describe(meta):
    return "using package %s, allow-list shape %s (lines %s), references per file %s" % (meta["pkg"], meta["al"], meta.get("lines"), meta["files"])


def run(ctx):
    if ctx.replay:
        return progcheck.replay_file(ctx, ctx.replay)
    thorough = ctx.tier == "thorough"
    cats = {"PKGO"}
    rep = progcheck.Replay(ctx, cats)
    c01.nonvacuous(ctx, "PackageOnly", [("FirstLineOnly", "single", ("Exact",)), ("NoNameMatch", "single", ("Exact",)), ("TypeHidesMethods", "single", ("Exact",)), ("ExportedOnly", "single", ("Exact",)), ("SamePosOnce", "single", ("Exact",)), ("KeysNotVisited", "single", ("Exact",)), ("GroupDocLeaks", "single", ("Exact",)), ("MethodKeyWithoutType", "seq2", ("Exact",)),
                                        ("NoDedup", "seq2", ("Exact",)), ("NoUnalias", "spell", ("Exact",))], cfg)
    total = 0
    real_items = []
    for mode in ("single", "seq2", "seq3", "spell"):
        scs, r = progcheck.tlc_scenarios(ctx, "PackageOnly", cfg(mode), "c04_" + mode, coverage=(mode == "seq2"))
        total += len(scs)
        items = []
        for i, sc in enumerate(scs):
            prog, exp, _ = gen_tonl.build_pkgo(sc, "C04_%s_%d" % (mode, i))
            items.append((prog, exp, {k: sc[k] for k in ("al", "pkg", "files", "lines")}))
        rep.check(items)
        real_items += progcheck.sample(items, 600 if thorough else 60, ctx.seed + 3)
    for lab, cov in ctx.coverage.items():
        zero = [a for a, n in cov.items() if n == 0 and not a.endswith("Finished")]
        if zero:
            raise vlib.ToolError("vacuous actions in %s: %s" % (lab, zero))
    rep.settle(describe=describe)
    # the attachment index itself (util.AttachmentsMap): every history of <= 2 (quick) / 3 (thorough) Add* calls, all queries
    acfg = "SPECIFICATION Spec\nCONSTANTS\n  MaxOps = %d\n  Emit = TRUE\nINVARIANTS Agree EmitInv\nPROPERTIES Independent\nCHECK_DEADLOCK FALSE\n" % (3 if thorough else 2)
    ar = ctx.tlc("Attachments", acfg, label="c04_attachments", collect_emit=False, timeout=2400)
    import json
    import subprocess
    with open(ar["out"]) as f:
        pr = subprocess.run([ctx.vh(), "attachments-replay"], stdin=f, stdout=subprocess.PIPE, stderr=subprocess.PIPE, text=True)
    if pr.returncode not in (0, 1):
        raise vlib.ToolError("attachments-replay failed: " + pr.stderr[-800:])
    ares = json.loads(pr.stdout)
    if ares["histories"] != ar["distinct"]:
        raise vlib.ToolError("replayed %d histories, TLC found %d states" % (ares["histories"], ar["distinct"]))
    for mm in (ares["mismatches"] or [])[:2]:
        if len(ctx.violations) < 3:
            ctx.violation("AttachmentsMap after %s: %s = %s, the specification says %s" % (mm["history"], mm["query"], mm["observed"], mm["expected"]),
                          {"kind": "attachments", "scenario": mm})
    # two using packages in one run, the allowed one analysed before the one that is not (w imports u): what the index builder does
    # for an allowed package must not reach the next one (the standalone driver shares the imported facts in memory)
    import gen_xpkg
    for k, al in enumerate(([["u"]], [["m/u"]], [["u"], ["x"]], [["w"]], [["m/w", "x"]])):
        v = {"ctors": ["NewT"], "allow": al, "mut2": False, "shape": "diamond", "ptrmeth": bool(k % 2), "unsafe": False, "dign": None}
        prog, exp = gen_xpkg.build(v, "C04_two_users_%d" % k)
        real_items.append((prog, {e for e in exp if e[2].startswith("PKGO")}, {"al": "two using packages", "pkg": "u, w", "files": [["all reference kinds"]], "lines": al}))
    nreal = 0
    if not ctx.violations:
        nreal = progcheck.real_drivers(ctx, real_items, cats, rep)
    return ctx.finish("model_checking", {
        "traces_validated_against_impl": rep.run + nreal,
        "samples": rep.samples,
        "evaluations": rep.run + nreal,
        "distinct_nontrivial": len(rep.nontrivial),
        "rule": "every terminal state of PackageOnly.tla (9 allow-list shapes x 3 using packages (declaring package, name = last path element, "
                "name # last path element) x 11 reference kinds; sequences of 2-3 references over 1-2 files for the once-per-file rule) is "
                "concretised and analysed by the real analyzers; distinct_nontrivial = distinct scenarios with a non-empty expectation",
        "scenarios_emitted_by_tlc": total,
        "replayed_in_process": rep.run,
        "replayed_real_binary_and_vet": nreal,
        "attachment_histories_replayed": ares["histories"],
        "attachment_queries": ares["queries"],
        "exhaustive": True,
    }, assumptions=["fragment: direct imports, one reference per top-level declaration",
                    "diagnostics are compared as (file, line, code) sets of the PKGO category"])
