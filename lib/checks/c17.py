"""C17 - every diagnostic is well-formed, documented, suppressible by the code it shows (DESIGN.md 5, C17)."""
import concurrent.futures as cf
import json
import os
import random
import re
import subprocess

import gen_all
import gen_xpkg
import proglib
import vlib

TCFG = """SPECIFICATION TraceSpec
CONSTANTS
  TraceFile = "%s"
INVARIANTS SeenOK %s
POSTCONDITION TraceAccepted
CHECK_DEADLOCK FALSE
"""

SHAPES = """package s

import "m/d"

func shapes(p *d.T, s d.S) {
	_, p.X = 0, 2001
	_ = []d.T{
		{X: 2002},
	}
	defer func() {
		p.Xs[1] = 2003
	}()
	_ = d.TF(2004) + d.TF(2005)
	if p != nil {
		_ = new(d.T)
	}
}

// a directive on the whole function names other codes of the same categories than the diagnostics inside
// @ignore IMM01, CTOR01
func nestedScopes(p *d.T) {
	p.X++
	_ = new(d.T)
}

func chains() {
	_ = d.MkS().PM(2010)
	_ = d.MkTS().TM(2011)
}

var g1 = d.T{X: 2006}

var g2 d.T

var g3 = d.TF(2007)

var g4 = func() int { return d.PF(2008) }()

// A3s claims an interface it does not implement.
// @implements d.I
type A3s struct{}

type (
	// A4g sits in a declaration group and claims an interface it does not implement.
	// @implements d.I
	A4g struct{}

	// A5g is a second member of the group, with an unknown interface.
	// @implements d.Nope
	A5g struct{}
)

var gPT d.PT

var gLast = d.TT{X: 2009}
"""

# a second file of the same package that names the once-per-file types again: every file gets its own report
SHAPES2 = """package s

import "m/d"

func again() {
	_ = d.TT{X: 2201}
	var v d.PT
	_ = v
}

func againLater() {
	_ = d.TT{X: 2202}
	var w d.PT
	_ = w
}
"""


RECV = """package d

// C is an immutable counter.
// @immutable
type C int

func (c *C) Inc() {
	*c++
}

func (c *C) Dec() {
	*c--
}

func (c *C) Reset() {
	*c = 0
}

// R is an immutable record.
// @immutable
type R struct{ N int }

func (r *R) Bump() {
	r.N++
	r.N -= 2
}
"""


PRE = """package %s

var pre1 = 1

var pre2 = 2

// pre3 carries a directive that matches no code: the package already has an @ignore in an earlier file, in front of its
// third declaration, before any is appended.
// @ignore ZZZ9
var pre3 = pre1 + pre2
"""


def with_pre(prog):
    for pk in prog["pkgs"]:
        d = os.path.dirname(pk["files"][0]["name"])
        pk["files"].insert(0, {"name": (d + "/" if d else "") + "a0pre.go", "src": PRE % pk["name"]})
    return prog


def programs(rng, n):
    return [with_pre(p) for p in programs0(rng, n)]


def programs0(rng, n):
    out = []
    p, e = gen_all.allcodes("C17_all")
    p["pkgs"][0]["files"].append({"name": "d/recv.go", "src": RECV})
    # a file that the default configuration excludes by its *name* (not first of its package), full of reportable code
    excluded = "package s\n\nimport \"m/d\"\n\nfunc inExcluded(p *d.T) {\n\tp.X = 2101\n\t_ = d.T{X: 2102}\n\t_ = d.TF(2103)\n\t_ = d.PF(2104)\n}\n"
    p["pkgs"].append({"path": "m/s", "name": "s", "files": [{"name": "s/shapes.go", "src": SHAPES}, {"name": "s/shapes2.go", "src": SHAPES2},
                                                              {"name": "s/wire_testdata.go", "src": excluded}]})
    out.append(p)
    for i in range(n):
        v = gen_xpkg.variant(rng)
        prog, exp = gen_xpkg.build(v, "C17_x%d" % i)
        out.append(prog)
    return out


def run(ctx):
    if ctx.replay:
        print("re-run ./bin/check C17 (the replay file documents the rejected event and the program)")
        return 2
    thorough = ctx.tier == "thorough"
    rng = random.Random(ctx.seed)
    # the documented code table and the documentation page of every category (Codes.tla) against src/codes/codes.go
    import progcheck
    progcheck.codes_table_check(ctx, {"doc", "table"})
    exe = ctx.binary("gogreement")
    progs = programs(rng, 6 if thorough else 1)
    events = []
    origin = []   # parallel to events: what the event is about (for violation reports)
    ndiag = nsupp = 0
    samples = []
    for prog in progs:
        root = os.path.join(ctx.scratch, "mod_" + prog["id"])
        proglib.write_module(root, prog)
        env = vlib.go_env()
        rj = subprocess.run([exe, "-json", "./..."], cwd=root, env=env, stdout=subprocess.PIPE, stderr=subprocess.PIPE, text=True, timeout=300)
        diags, errs = proglib.parse_json_tree(rj.stdout, root)
        if errs or rj.returncode != 0 or vlib.crashed(rj.stderr):
            ctx.violation("the binary failed on %s: %s" % (prog["id"], (errs or rj.stderr)[:300]), {"kind": "program", "program": prog, "expected": [], "cats": []})
            continue
        diags = proglib.dedup(diags)
        rt = subprocess.run([exe, "./..."], cwd=root, env=env, stdout=subprocess.PIPE, stderr=subprocess.PIPE, text=True, timeout=300)
        printed = len(re.findall(r"^\S+\.go:\d+:\d+: ", rt.stderr, re.M))
        events.append({"ev": "Exit", "rc": rt.returncode, "printed": printed})
        origin.append({"program": prog["id"], "text_mode_stderr_head": rt.stderr[:400]})
        if printed != len(diags) and len(ctx.violations) < 3:
            ctx.violation("text mode prints %d diagnostics, -json reports %d" % (printed, len(diags)), {"kind": "program", "program": prog, "expected": [], "cats": []})
        # a clean module exits 0 in text mode
        files = {f["name"]: f["src"] for pk in prog["pkgs"] for f in pk["files"]}
        pkg_of_file = {f["name"]: pk["path"] for pk in prog["pkgs"] for f in pk["files"]}
        base = {(d["file"], d["line"], d["code"]) for d in diags}
        for d in diags:
            codes = set(re.findall(r"\[([A-Z]+\d\d)\]", d["msg"].split("\n")[0]))
            m = re.search(r"= help: (\S+)", d["msg"])
            events.append({"ev": "Diag", "code": d["code"] or "", "ncodes": len(codes), "analyzer": d["analyzer"],
                           "help": m.group(1) if m else "", "skipped": d["file"].endswith("_test.go") or "testdata" in d["file"],
                           "ownpkg": pkg_of_file.get(d["file"]) == d["pkg"]})
            origin.append({"program": prog["id"], "diagnostic": {k: d[k] for k in ("file", "line", "col", "analyzer")}, "message": d["msg"][:600]})
            ndiag += 1
            if len(samples) < 2:
                samples.append({"diagnostic": d["msg"].split("\n")[0], "file": d["file"], "line": d["line"]})
        # suppress-by-own-code: one variant program per diagnostic, analysed in process
        variants = []
        for k, d in enumerate(diags):
            if not d["code"]:
                continue
            lines = files[d["file"]].split("\n")
            text = lines[d["line"] - 1]
            if "//" in text:
                continue
            lines[d["line"] - 1] = text + " // @ignore " + d["code"]
            v = json.loads(json.dumps(prog))
            v["id"] = "%s_sup%d" % (prog["id"], k)
            for pk in v["pkgs"]:
                for f in pk["files"]:
                    if f["name"] == d["file"]:
                        f["src"] = "\n".join(lines)
            variants.append((v, d))
        res = proglib.run_vh(ctx, [v for v, _ in variants])
        for v, d in variants:
            r = res[v["id"]]
            if r.get("err") or r.get("fail"):
                ctx.violation("analysis failed after appending `// @ignore %s` to %s:%d: %s" % (d["code"], d["file"], d["line"], (r.get("err") or r.get("fail"))[:200]),
                              {"kind": "program", "program": v, "expected": [], "cats": []})
                continue
            now = {(x["file"], x["line"], x["code"]) for x in r["diags"]}
            me = (d["file"], d["line"], d["code"])
            gone = base - now
            added = now - base
            events.append({"ev": "Suppress", "code": d["code"], "selfgone": me not in now, "others": len(gone - {me}),
                           "added": sorted(a[2] for a in added), "samefile": all(a[0] == d["file"] for a in added)})
            origin.append({"program": v["id"], "appended_to": "%s:%d" % (d["file"], d["line"]), "line_text": files[d["file"]].split("\n")[d["line"] - 1],
                           "disappeared": sorted(gone), "appeared": sorted(added), "program_sources": v})
            nsupp += 1
    # a module without annotations: exit status 0, nothing printed
    clean = {"id": "C17_clean", "pkgs": [{"path": "m/c", "name": "c", "files": [{"name": "c/c.go", "src": "package c\n\nfunc F() int { return 1 }\n"}]}]}
    root = os.path.join(ctx.scratch, "mod_clean")
    proglib.write_module(root, clean)
    rt = subprocess.run([exe, "./..."], cwd=root, env=vlib.go_env(), stdout=subprocess.PIPE, stderr=subprocess.PIPE, text=True, timeout=120)
    events.append({"ev": "Exit", "rc": rt.returncode, "printed": len(re.findall(r"^\S+\.go:\d+:\d+: ", rt.stderr, re.M))})
    origin.append({"program": "C17_clean", "stderr": rt.stderr[:300]})

    path = os.path.join(ctx.scratch, "c17.ndjson")
    with open(path, "w") as f:
        for e in events:
            f.write(json.dumps(e) + "\n")
    r = ctx.tlc("DiagTrace", TCFG % (path, "AllSeen"), workers=1, label="c17_trace", allow_violation=True, timeout=900, jvm="-XX:ParallelGCThreads=2 -Xmx3g")
    accepted = len(events)
    if r["violated"] == "AllSeen":
        raise vlib.ToolError("the programs did not produce all 16 codes (vacuity)")
    while r["violated"] is not None and len(ctx.violations) < 3:
        if r["violated"] != "POSTCONDITION":
            raise vlib.ToolError("DiagTrace failed: %s" % r["violated"])
        m = re.search(r"line (\d+)", r["reject"] or "")
        ln = int(m.group(1))
        ev, org = events[ln - 1], origin[ln - 1]
        what = {"Diag": "malformed / undocumented / misplaced diagnostic", "Suppress": "appending `// @ignore <code>` to the diagnostic's line does not remove exactly it",
                "Exit": "text-mode exit status does not match the number of printed diagnostics"}[ev["ev"]]
        ctx.violation("%s: %s  [%s]" % (what, json.dumps(ev), json.dumps({k: v for k, v in org.items() if k != "program_sources"})[:500]),
                      {"kind": "diag", "event": ev, "origin": org})
        accepted = min(accepted, ln - 1)
        # continue after the rejected event so that the rest of the trace is checked too
        events.pop(ln - 1)
        origin.pop(ln - 1)
        with open(path, "w") as f:
            for e in events:
                f.write(json.dumps(e) + "\n")
        r = ctx.tlc("DiagTrace", TCFG % (path, ""), workers=1, label="c17_trace_more", allow_violation=True, timeout=900, jvm="-XX:ParallelGCThreads=2 -Xmx3g", count=False)
    return ctx.finish("model_checking", {
        "traces_validated_against_impl": accepted,
        "samples": samples,
        "evaluations": len(events),
        "distinct_nontrivial": ndiag,
        "rule": "every diagnostic of the all-codes program (16 codes in two packages plus anchor shapes: mid-statement, multi-line literal, closure, "
                "package-level single-line declarations, last line of the file) and of seeded cross-package programs is recorded as a Diag event "
                "(code, distinct [CODE] tokens, analyzer, help link, file class), followed by a Suppress event from re-analysing the program with "
                "`// @ignore <code>` appended to the diagnostic's line, plus Exit events of text-mode runs; the trace is validated by DiagTrace "
                "against the code table of Codes.tla; distinct_nontrivial = diagnostics examined",
        "diagnostics": ndiag,
        "suppress_runs": nsupp,
        "exhaustive": False,
    }, assumptions=["lines that already carry a comment are not used for the suppress-by-own-code run",
                    "for the once-per-file codes a report of the same code may appear elsewhere in the same file (it moves to the next use)"])
