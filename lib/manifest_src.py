"""Source of MANIFEST.json: one entry per claimed property; everything else is listed
under not_applicable with the reason it is not (yet) claimed."""
import json
import os

ROOT = os.path.dirname(os.path.dirname(os.path.abspath(__file__)))

CHECKS = {
    "C16": dict(
        text="TLC checks exhaustively that the operational model of util.IgnoreSet (markers, per-token index, min/max fast "
             "reject, global list, Initialized flag) answers every query like the property (inclusive range + ALL>category>code) "
             "for all histories of <=3 (quick) / <=4 (thorough) add-operations over the alphabet the property names; every "
             "reached state is replayed into the real structure in every insertion order with all 42 queries compared, and "
             "random longer histories recorded from the real structure are validated step by step by IgnoreSetTrace. Thorough tier: Apalache "
             "checks that the representation invariant (IgnoreSetInd.tla) is inductive and implies Impl = Ref for any set of markers, i.e. "
             "without a bound on the number of add-operations.",
        note="Trusted: TLC, the 150-line replay/record driver in harness/cmd/vh/ignoreset.go, positions >= 1 for markers.",
        technique="TLA+ model (IgnoreSet.tla) checked by TLC (+ inductive invariant IgnoreSetInd.tla checked by Apalache in the thorough tier); exhaustive state replay into util.IgnoreSet + trace validation (IgnoreSetTrace.tla)",
        design="5/C16"),
    "C19": dict(
        text="TLC checks that the three-regime truncation model (ReadWindow, Truncate, PlaceCaret) satisfies the property (caret over the "
             "reported byte, bounded length, context window, degradation) for every line length 0..3L and column at small L, with "
             "termination; at the real limit L=200 every terminal state (quick: all regime boundaries +-3; thorough: all 181k (len,col) pairs) "
             "is executed through the public reporting.Reporter with ascii / tab / multi-byte line contents and the rendered window, ellipses "
             "and caret are compared with the model (ascii, tabs, 2-byte runes, CRLF). ReporterCache.tla models the line cache one Reporter keeps "
             "between diagnostics; every history of <=3 (quick) / <=4 (thorough) reports on two files is replayed through one real Reporter "
             "(window, context text, byte-identity with a fresh Reporter, number of ReadFile calls).",
        note="Trusted: TLC, the message parser in harness/cmd/vh/excerpt.go and reporterseq.go; columns are byte offsets.",
        technique="TLA+ models (Excerpt.tla, ReporterCache.tla) checked by TLC, the truncation arithmetic for every display limit by Apalache (ExcerptAll.tla); exhaustive replay of model states and histories into reporting.Reporter",
        design="5/C19"),
    "C01": dict(
        text="TLC checks that the declaration-by-declaration walk of the immutable checker (context reset on leaving a declaration) "
             "reports exactly what the property demands for every abstract program in four bounded spaces: all single containers "
             "(9 container kinds x 16 statements x receiver/parameter x pointer/value x 11 nestings x 24 annotation records x 2 packages), "
             "all sequences of 2 (quick) / 3 (thorough) containers over 1-2 files, and all type spellings; with termination and the action "
             "property that the context never outlives its declaration. Every emitted scenario (quick: seeded sample of the singles) is "
             "concretised to a multi-package Go program and run through the real analyzers; a sample also through the real binary and go vet.",
        note="Trusted: TLC, the concretisation in lib/gen_imm.py (every program is type-checked before use), the in-process driver built on x/tools checker.",
        technique="TLA+ model (Immutable.tla) checked by TLC; TLC-enumerated programs replayed into the real analyzers (in-process, binary, go vet)",
        design="5/C01"),
    "C02": dict(
        text="Same construction as C01 for Constructor.tla: single containers (8 kinds incl. package-level declarations x 10 instantiation forms x "
             "11 nestings x all constructor-list spellings x 2 packages), sequences of 2/3 containers over 1-2 files, all type spellings; every "
             "emitted scenario replayed into the real analyzers, a sample through the real binary and go vet. Registry.tla models the "
             "constructor index itself (util.TypeAssociationRegistry / util.TypesMap); every history of <=3/4 Add calls is replayed through the real structures.",
        note="Trusted: TLC, lib/gen_imm.py, the in-process driver; trailing comma in the list and methods named like a constructor are not generated.",
        technique="TLA+ models (Constructor.tla, Registry.tla) checked by TLC; TLC-enumerated programs and index histories replayed into the real analyzers / structures (in-process, binary, go vet)",
        design="5/C02"),
    "C03": dict(
        text="TLC checks that the walk with a per-file reported set keyed by (package, type) and the skip of @testonly declarations and "
             "_test.go files reports exactly what the property demands, for all single uses (3 annotation switches x 2 packages x test/non-test "
             "file x 5 contexts x 13 use kinds, incl. un-annotated twins, a shadowing local and a same-named type of another package) and all "
             "sequences of 2-3 uses over 1-2 files; every emitted scenario is replayed into the real analyzers under the default and the "
             "scan-tests configuration, a sample through the real binary and go vet.",
        note="Trusted: TLC, lib/gen_tonl.py (programs type-checked before use), the in-process driver. Receiver uses of a @testonly type are not generated.",
        technique="TLA+ model (TestOnly.tla) checked by TLC; TLC-enumerated programs replayed into the real analyzers (in-process, binary, go vet)",
        design="5/C03"),
    "C04": dict(
        text="TLC checks that the attachment index built from all @packageonly lines, consulted by path and by declared name, with the "
             "per-file once-per-type rule, reports exactly what the property demands for 9 allow-list shapes x 3 using packages x 11 reference "
             "kinds and all sequences of 2-3 references; all scenarios replayed into the real analyzers, a sample through the real binary and go vet.",
        note="Trusted: TLC, lib/gen_tonl.py, the in-process driver.",
        technique="TLA+ model (PackageOnly.tla) checked by TLC; TLC-enumerated programs replayed into the real analyzers (in-process, binary, go vet)",
        design="5/C04"),
    "C12": dict(
        text="In the four checker specifications the expected diagnostics are a function of each declaration alone (Exact is checked by TLC "
             "over all sequences of 2-3 declarations distributed over 1-2 files), which is layout-independence at model level; TLC also shows "
             "that it fails as soon as the walk context is not reset (LeakWalkState). Binding: TLC-enumerated programs are analysed as "
             "generated and after random compositions of the listed transformations (permute, move between files, comments, blank lines, "
             "mis-format + gofmt, rename locals) and compared in layout-invariant keys.",
        note="Trusted: TLC, lib/layout.py (transformed programs must still type-check, else exit 2), the in-process driver.",
        technique="TLA+ models (Immutable/Constructor/TestOnly/PackageOnly.tla) checked by TLC; metamorphic replay of TLC-enumerated programs under layout transformations",
        design="5/C12"),
    "C13": dict(
        text="In the four checker specifications a use site carries a spelling attribute that the verdict never consults (Exact over the "
             "'spell' spaces), and TLC shows the invariant fails when aliases are not resolved (NoUnalias). Binding: every (use-site kind x "
             "spelling) scenario and its directly spelled twin are concretised and analysed by the real analyzers; a sample through the binary and go vet.",
        note="Trusted: TLC, the generators (type-checked programs), the in-process driver. Third-package aliases with the declaring package imported directly.",
        technique="TLA+ models checked by TLC; replay of TLC-enumerated (use site x spelling) programs and their direct-spelling twins",
        design="5/C13"),
    "C07": dict(
        text="TLC checks that Classify (file / inline / declaration / statement / lone) + ComputeRange + the inclusive range test reproduce the "
             "structural scope of the property for every comment slot of a fixed layout (18 slots incl. trailing a closing brace and a "
             "single-line top-level declaration, end of block, other file), every anchor position class and every code list, incl. the moving "
             "report of the once-per-file codes; each terminal state is concretised (12 program kinds) and analysed, the diagnostics of the "
             "kind's code must equal the model's set; a sample through the real binary and go vet.",
        note="Trusted: TLC, lib/gen_scope.py, the in-process driver. IMPL anchors are covered by C17.",
        technique="TLA+ model (Scope.tla + Codes.tla) checked by TLC; replay of every (kind, slot, list) scenario into the real analyzers",
        design="5/C07"),
    "C08": dict(
        text="TLC checks on Config.tla that the configuration reached through the process steps (environment captured into flag defaults, "
             "command line override, parse-and-cache in the first pass) excludes exactly the codes matched by S under ALL > category > code, for "
             "every subset of a reduced token universe and every singleton / pair of the full one; the unmodified binary is run on a probe module "
             "with all 16 codes in two packages for those S (spelled with random case, blanks, empty items; by flag or by environment) and the "
             "visible codes must equal the model's; a sample also under go vet -vettool.",
        note="Trusted: TLC, lib/gen_cfg.py, the JSON output parser. Quick replays a seeded sample of the emitted sets, thorough all of them.",
        technique="TLA+ model (Config.tla + Codes.tla) checked by TLC; TLC-enumerated configurations replayed into the real binary on a probe module",
        design="5/C08"),
    "C18": dict(
        text="TLC checks on Config.tla that ProcInit / ParseFlags / RunConfigOnce / RunConfigAgain yield flag > environment > default for the "
             "full grid of the three options and that the cached configuration never changes after the first pass; the grids of each option "
             "(exhaustively) and a seeded sample of the full product are concretised with seeded spellings and the unmodified binary is run on a "
             "probe module whose visible plants (test file, *testdata* path, zzgen path, one per code) must equal the model's; vet-driver sample "
             "and fuzzed environment strings that must not make the tool fail.",
        note="Trusted: TLC, lib/gen_cfg.py, the JSON output parser; GOGREEMENT_ENV_ONLY unset; boolean flags limited to spellings package flag accepts.",
        technique="TLA+ model (Config.tla) checked by TLC; TLC-enumerated (env, argv) grids replayed into the real binary on a probe module",
        design="5/C18"),
    "C06": dict(
        text="TLC checks Pipeline.tla (the run as a schedule of (analyzer, package) actions with per-process configuration cache, per-package "
             "results and per-(analyzer, package) facts) for every schedule, both drivers, both import shapes and every run set: named packages get "
             "exactly the schedule-free function of their own and their direct imports' annotations; facts are read only after they were written "
             "and only from direct imports; every fact-exporting action exports before it returns. Binding: seeded three-package programs whose "
             "declaring package carries every annotation kind with encoding-stressing values are analysed under every run set by the in-process "
             "driver (with and without gob round trip), the real binary and go vet, each compared with the expectation restricted to the named "
             "packages; traces of the instrumented build under both drivers (also on the repository's integration fixtures) are validated by "
             "PipelineTrace (import digests must equal export digests).",
        note="Trusted: TLC, harness/internal/trace (wraps Analyzer.Run, no source change), lib/gen_xpkg.py expectations, go vet cache defeated by unique module paths.",
        technique="TLA+ model (Pipeline.tla) checked by TLC; differential replay across drivers and run sets; trace validation (PipelineTrace.tla) of instrumented real runs",
        design="5/C06"),
    "C11": dict(
        text="TLC explores every interleaving of the Start/End events of the 24 actions of a three-package run and checks that the diagnostics are "
             "the schedule-free function L1 and that the configuration cache is written once. Behaviours sampled by TLC's simulator are forced onto "
             "the real parallel checker driver through the blocking Run wrapper on a race-enabled build; diagnostics are compared and the recorded "
             "trace is validated by PipelineTrace; plus parallel stress under the race detector and black-box runs of the unmodified binary "
             "(GOMAXPROCS, -debug=p, permuted arguments, sub-run-sets with test variants, same-name importers, generated code) compared per package "
             "with a reference run; Scope.tla programs with @ignore comments in both files analysed with the files' position bases reversed.",
        note="Trusted: TLC, the gate in harness/internal/trace; the race detector is dynamic (DESIGN.md section 8).",
        technique="TLA+ model (Pipeline.tla) checked by TLC; TLC-generated schedules replayed into the real parallel driver (race build) + trace validation + black-box differential runs",
        design="5/C11"),
    "C14": dict(
        text="TLC checks Files.tla: the annotation reader (type loop and function loop), the ignore reader and the checkers each iterate over the "
             "files the filter lets through; for 7 file classes x content flags x scan-tests x exclude-paths the diagnostics equal the property's "
             "expectation (nothing located in a skipped file, nothing influenced by it, test files never get TONL), and each named deviation (one "
             "reader forgetting the filter, filter evaluated on the first file only, TONL in tests) violates it. Every scenario is concretised and "
             "analysed under its configuration (one harness process per configuration), a sample by the real binary, a second sample with the "
             "configuration given by flags under a contrary environment, excluded directories also under go vet.",
        note="Trusted: TLC, lib/gen_files.py, the in-process driver (in-package test files are plain files there; the real drivers add test variants).",
        technique="TLA+ model (Files.tla) checked by TLC; replay of every (file class, content, configuration) scenario into the real analyzers",
        design="5/C14"),
    "C17": dict(
        text="Trace validation against Codes.tla: every diagnostic of the all-codes program (16 codes, several anchor shapes incl. receiver "
             "mutations, package-level single-line declarations and the last line of a file) and of seeded cross-package programs is turned "
             "into a Diag event (code, number of distinct [CODE] tokens, analyzer, help link, file class) followed by a Suppress event obtained "
             "by re-analysing the program with `// @ignore <its code>` appended to its line, plus Exit events of text-mode runs of the real "
             "binary; TLC accepts the trace only if every event satisfies the property, and all 16 codes must have been seen.",
        note="Trusted: TLC, the message parsing in lib/checks/c17.py; the programs are fixed families, not enumerated by TLC.",
        technique="TLA+ code table (Codes.tla) + trace specification (DiagTrace.tla): traces of real runs validated by TLC",
        design="5/C17"),
    "C15": dict(
        text="TLC checks that the left-to-right scanner model (one state per position class, remembering the last complete argument followed by a "
             "blank) recognises exactly the documented grammar (declarative L1: keyword after // and blanks, followed by end or blank, longest "
             "well-formed argument followed by end or blank, tail ignored) on every line `opener pre keyword rest` with rest over 12 character "
             "classes up to length 4 (quick) / 5 (thorough), for all seven keywords and near-keywords; every line up to length 3 / 4 and every "
             "(keyword, placement) pair of 18 placements is written into generated Go files, read back by the real annotationreader / ignorereader "
             "and compared field by field.",
        note="Trusted: TLC, lib/gen_grammar.py (fixed representatives per character class). Trailing comma and digit-leading names are not compared.",
        technique="TLA+ model (Grammar.tla) checked by TLC; exhaustive replay of bounded comment lines and placements into the real readers",
        design="5/C15"),
    "C09": dict(
        text="TLC checks NoAnnNoDiag in the Immutable, Constructor and TestOnly specifications (no annotation record => no diagnostic, for every "
             "container, statement and nesting). Their un-annotated scenarios, and all-codes programs whose declaring package only mentions the "
             "keywords (near-miss lines from the inert class of Grammar.tla, commented-out annotated declarations, annotated local types, trailing "
             "comments), are analysed under four configurations by the real analyzers (sample through the binary and go vet): zero diagnostics. "
             "The whole standard library is analysed by the instrumented build and every action's End event is validated by CorpusTrace: no "
             "diagnostic on a package without keyword lines.",
        note="Trusted: TLC, harness/internal/trace, the keyword scan that establishes the premise per package (conservative).",
        technique="TLA+ invariants (NoAnnNoDiag) checked by TLC; replay of un-annotated / near-miss programs; trace validation (CorpusTrace.tla) of runs over the standard library",
        design="5/C09"),
    "C10": dict(
        text="TLC checks termination of the walk specifications under fairness and shows the crash state reachable under the LeakWalkState "
             "deviation. Replay: every 2-declaration program with a package-level initialiser, 'generated code' shapes (//line directives beyond the "
             "file's end with trailing @ignore, a 70 KB line, generics, malformed and oddly placed annotations), 48 independent packages claiming "
             "imported interfaces, in process (2 configurations x sequential/parallel) and through the real binary (text/json) and go vet. Annotated "
             "corpora: clones of standard-library packages with annotations, near-misses and @ignore comments injected at seeded random declarations, "
             "analysed by the instrumented build under both drivers; CorpusTrace accepts only runs in which every Start has its End without error "
             "and the driver finishes normally.",
        note="Trusted: TLC, harness/internal/trace, lib/corpus.py. Interleaving-dependent crashes are retried up to 8 times before being reported; the race-enabled runs live in C11.",
        technique="TLA+ liveness (Termination) checked by TLC; replay of crash-prone program shapes; trace validation (CorpusTrace.tla) of runs over annotated real-world corpora",
        design="5/C10"),
    "C05": dict(
        text="TLC checks that the four phases ResolveQualifier / LookupInterface / BuildMethodSet / Compare yield Go's own verdict (IMPL01 / "
             "IMPL02 / IMPL03 mutually exclusive in that order, the missing set computed with Go's method-set rule and type identity given by a "
             "canonical-form table: byte = uint8, any = interface{}, alias = target) for every pair of 24 x 23 parameter and result types, "
             "variadic vs slice, the method-set matrix and the qualifier x interface-kind matrix. Every scenario is concretised; the model's verdict "
             "is first cross-checked against go/types (types.NewMethodSet, types.Identical) - any disagreement is a model error - and then compared "
             "with the analyzer's code and listed missing methods; a sample through the real binary and go vet.",
        note="Trusted: TLC, lib/gen_impl.py, go/types as the oracle the property names. Blank imports and alias-hides-declared-name are not generated.",
        technique="TLA+ model (Implements.tla) checked by TLC; replay of every scenario into the real analyzer with go/types as second oracle",
        design="5/C05"),
}

NOT_YET = "check not built yet in this session; the property is in scope of the TLA+ specification (see DESIGN.md section 5) and will be claimed when its replay binding is in place"


def build():
    props = [json.loads(l) for l in open(os.path.join(ROOT, "properties.jsonl"))]
    checks = []
    na = []
    for p in props:
        pid = p["id"]
        if pid in CHECKS:
            c = CHECKS[pid]
            checks.append({
                "property_id": pid,
                "quick_cmd": "./bin/check %s --tier quick" % pid,
                "thorough_cmd": "./bin/check %s --tier thorough" % pid,
                "evidence_file": "evidence/%s.json" % pid,
                "replay_cmd_template": "./bin/check %s --replay {path}" % pid,
                "engine": "tlc+vh",
                "level_claimed": {"category": "model_checking", "text": c["text"], "design_ref": c["design"]},
                "level_note": c["note"],
                "technique": c["technique"],
            })
        else:
            na.append({"property_id": pid, "reason": NOT_YET})
    return {
        "version": 1,
        "setup_cmd": "./bin/setup",
        "hooks": {
            "guard": "verif",
            "enable": "go build -tags verif (reserved: the machinery observes gogreement through its public API and by wrapping analysis.Analyzer.Run in harness/cmd/ggtrace; no source hook is needed so far)",
            "baseline_off_cmd": "cd /repo && GOFLAGS=-mod=mod GOPROXY=off go test -vet=off -count=1 ./...",
            "source_commits": [],
            "add_only": True,
        },
        "engines": [
            {"name": "tlc+vh", "path": "bin/check", "serves_properties": sorted(CHECKS),
             "kind_free_text": "TLA+ specifications under spec/ model-checked by TLC; scenarios emitted by TLC are replayed into the real code by the Go harness (harness/cmd/vh) and traces recorded from the real code are validated by the *Trace specifications"},
        ],
        "checks": checks,
        "not_applicable": na,
        "notes": "All checks rebuild the harness and the gogreement binary from /repo's working tree on every run. Exit 2 = tool/model failure (never a verdict).",
    }
