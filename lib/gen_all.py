"""The "all codes" program: every one of the 16 diagnostic codes, each in two packages (u and w), one per line,
plus optional plants in a test file, under an excluded-looking directory, etc. (C08, C14, C17, C18, C06)."""

D_SRC = """package d

// T is immutable and has a constructor.
// @immutable
// @constructor NewT
type T struct {
	X  int
	Xs []int
	// @mutable
	M int
}

// NewT is the constructor of T.
func NewT() *T {
	t := &T{}
	t.X = 1
	return t
}

// TT is a test helper type.
// @testonly
type TT struct{ X int }

// PT is restricted to d.
// @packageonly
type PT struct{ X int }

type S struct{}

// I is an interface.
type I interface {
	M(n int) string
}

// TF is a test helper.
// @testonly
func TF(n int) int { return n }

// TM is a test helper.
// @testonly
func (s S) TM(n int) int { return n }

// PF is restricted.
// @packageonly
func PF(n int) int { return n }

// PM is restricted.
// @packageonly
func (s S) PM(n int) int { return n }

// MkS hands out an S; it is restricted.
// @packageonly
func MkS() S { return S{} }

// MkTS hands out an S; it is a test helper.
// @testonly
func MkTS() S { return S{} }

// Counter and Table are plain package-level variables.
var Counter int

var Table = []int{0}
"""

# (code, line text); every line is unique within the file thanks to the number
USES = [
    ("IMM01", "\tp.X = 1001"),
    ("IMM02", "\tp.X += 1002"),
    ("IMM03", "\tp.X++"),
    ("IMM04", "\tp.Xs[0] = 1004"),
    ("CTOR01", "\t_ = d.T{X: 1005}"),
    ("CTOR02", "\t_ = new(d.T)"),
    ("CTOR03", "\tvar v1007 d.T"),
    ("TONL01", "\t_ = d.TT{X: 1008}"),
    ("TONL02", "\t_ = d.TF(1009)"),
    ("TONL03", "\t_ = s.TM(1010)"),
    ("PKGO01", "\t_ = d.PT{X: 1011}"),
    ("PKGO02", "\t_ = d.PF(1012)"),
    ("PKGO03", "\t_ = s.PM(1013)"),
]


def use_file(pkgname, fname, codes=None, fn="use"):
    """A file with one violating line per requested code. Returns (src, {code: line})."""
    ls = ["package " + pkgname, "", 'import "m/d"', "", "func %s(p *d.T, s d.S) {" % fn]
    where = {}
    for code, text in USES:
        if codes is None or code in codes:
            ls.append(text)
            where[code] = len(ls)
            if code == "CTOR03":
                ls.append("\t_ = v1007")
    ls += ["}", ""]
    impl = [("IMPL01", "A1", "// @implements nope.I"), ("IMPL02", "A2", "// @implements d.Missing"), ("IMPL03", "A3", "// @implements d.I")]
    for code, tname, ann in impl:
        if codes is None or code in codes:
            ls += ["// %s%s is annotated." % (tname, fn), ann]
            ls.append("type %s%s struct{}" % (tname, fn))
            where[code] = len(ls)
            ls.append("")
    return "\n".join(ls) + "\n", where


def allcodes(sid="all", pkgs=("u", "w")):
    """Program + expected {(file, line, code)}."""
    out = [{"path": "m/d", "name": "d", "files": [{"name": "d/d.go", "src": D_SRC}]}]
    expect = set()
    for p in pkgs:
        src, where = use_file(p, "%s/a.go" % p)
        out.append({"path": "m/" + p, "name": p, "files": [{"name": "%s/a.go" % p, "src": src}]})
        for code, ln in where.items():
            expect.add(("%s/a.go" % p, ln, code))
    return {"id": sid, "pkgs": out}, expect
