"""Cross-package programs for C06 / C11 / C14: d declares every kind of annotation with values that
stress the fact encoding; u imports d; w imports u (chain) or u and d (diamond)."""
import random

import gen_all

LONG_CTORS = ["NewT"] + ["Make%d" % i for i in range(19)]


def variant(rng):
    return {
        "ctors": rng.choice([["NewT"], LONG_CTORS, ["Build", "NewT"]]),
        "allow": rng.choice([[[]], [["u"]], [["m/u", "m/w"]], [["x.y/z-w", "other"], ["m/u"]], [["w", "w"], ["m/w"]], [["m/x/y.z", "a-b"]]]),
        "mut2": rng.random() < 0.5,
        "shape": rng.choice(["chain", "diamond"]),
        "ptrmeth": rng.random() < 0.5,
        "unsafe": rng.random() < 0.5,
        # a file-level directive in every file of d scopes d's own diagnostics; what d exports is not its business
        "dign": rng.choice([None, None, "IMM", "ALL", "TONL, PKGO, CTOR"]),
    }


def d_src(v):
    al = ["// @packageonly" + ((" " + ", ".join(l)) if l else "") for l in v["allow"]]
    ls = ["package d", "", "// PT0 is restricted to its package.", "// @packageonly", "type PT0 struct{ X int }", "",
          "// T is immutable and has constructors.", "// @immutable",
          "// @constructor " + ", ".join(v["ctors"]), "type T struct {", "\tX  int", "\tXs []int", "\t// @mutable", "\tM int"]
    if v["mut2"]:
        ls += ["\t// @mutable", "\tM2 int"]
    else:
        ls += ["\tM2 int"]
    ls += ["}", "", "// NewT is the constructor of T.", "func NewT() *T {", "\tt := &T{}", "\tt.X = 1", "\treturn t", "}", "",
           "// TT is a test helper type.", "// @testonly", "type TT struct{ X int }", "",
           "// PT is restricted."] + al + ["type PT struct{ X int }", "", "type S struct{}", "",
           "// I is an interface.", "type I interface {", "\tM(n int) string", "}", "",
           "// TF is a test helper.", "// @testonly", "func TF(n int) int { return n }", "",
           "// TM is a test helper.", "// @testonly",
           ("func (s *S) TM(n int) int { return n }" if v["ptrmeth"] else "func (s S) TM(n int) int { return n }"), "",
           "// PF is restricted."] + al + ["func PF(n int) int { return n }", "",
           "// PM is restricted."] + al + [("func (s *S) PM(n int) int { return n }" if v["ptrmeth"] else "func (s S) PM(n int) int { return n }"), "",
           "// hidden is an unexported immutable type that leaks through an exported function.", "// @immutable", "type hidden struct{ X int }", "",
           "// Hidden hands out a hidden.", "func Hidden() *hidden { return &hidden{} }", "",
           "// Probe is a test helper on the unexported type.", "// @testonly", "func (h *hidden) Probe(n int) int { return n }", "",
           "// S3 has methods named like those of S, annotated on their own.", "type S3 struct{}", "",
           "// TM of S3 is a test helper.", "// @testonly", "func (s S3) TM(n int) int { return n }", "",
           "// PM of S3 is restricted."] + al + ["func (s S3) PM(n int) int { return n }", "",
           "// S4 has a method named TM that is no helper.", "type S4 struct{}", "", "func (s S4) TM(n int) int { return n }", ""]
    hdr = ["// @ignore " + v["dign"]] if v.get("dign") else []
    return "\n".join(hdr + ls) + "\n"


def allowed(v, pkg):
    toks = {t for l in v["allow"] for t in l}
    return ("m/" + pkg) in toks or pkg in toks


def use_lines(v, pkg, base):
    """(code or None, text) lines of the body of a function using d's items from package pkg."""
    s = "s" if not v["ptrmeth"] else "sp"
    out = [
        ("IMM01", "\tp.X = %d" % (base + 1)),
        ("IMM02", "\tp.X += %d" % (base + 2)),
        ("IMM03", "\tp.X++"),
        ("IMM04", "\tp.Xs[0] = %d" % (base + 4)),
        (None, "\tp.M = %d" % (base + 5)),
        (None if v["mut2"] else "IMM01", "\tp.M2 = %d" % (base + 6)),
        ("CTOR01", "\t_ = d.T{X: %d}" % (base + 7)),
        ("CTOR02", "\t_ = new(d.T)"),
        ("TONL01", "\t_ = d.TT{X: %d}" % (base + 9)),
        ("TONL02", "\t_ = d.TF(%d)" % (base + 10)),
        ("TONL03", "\t_ = %s.TM(%d)" % (s, base + 11)),
        (None if allowed(v, pkg) else "PKGO01", "\t_ = d.PT{X: %d}" % (base + 12)),
        (None if allowed(v, pkg) else "PKGO02", "\t_ = d.PF(%d)" % (base + 13)),
        (None if allowed(v, pkg) else "PKGO03", "\t_ = %s.PM(%d)" % (s, base + 14)),
        # Purge is a method of PT declared in a file of d that sorts before d.go; it is restricted to d itself
        ("PKGO03", "\td.PT{X: %d}.Purge()" % (base + 17)),
        ("IMM01", "\td.Hidden().X = %d" % (base + 15)),
        ("TONL03", "\t_ = d.Hidden().Probe(%d)" % (base + 16)),
        ("TONL03", "\t_ = d.S3{}.TM(%d)" % (base + 18)),
        (None if allowed(v, pkg) else "PKGO03", "\t_ = d.S3{}.PM(%d)" % (base + 19)),
        (None, "\t_ = d.S4{}.TM(%d)" % (base + 20)),
    ]
    return out


def build(v, sid):
    expect = set()
    pkgs = [{"path": "m/d", "name": "d", "files": [
        {"name": "d/a_ops.go", "src": ("// @ignore %s\n" % v["dign"] if v.get("dign") else "") + "package d\n\n// Purge is for d only.\n// @packageonly\nfunc (p PT) Purge() {}\n"},
        {"name": "d/d.go", "src": d_src(v)}]}]
    # u: uses d; declares its own annotated type and an API that hands out d.T
    # e starts exactly like d (same package-name length): its first declaration has the same offset in its file as d's
    # (both packages have a first file a_ops.go of the same size, so that the offsets agree in the per-package file sets of go vet too)
    ehdr = ("// @ignore %s\n" % v["dign"]) if v.get("dign") else ""
    e_ops = ehdr + "package e\n\n// Purge is for e only\n// @packageonly\nfunc (p PT0) Purge() {}\n"
    assert len(e_ops) == len(pkgs[0]["files"][0]["src"]), (len(e_ops), len(pkgs[0]["files"][0]["src"]))
    pkgs.append({"path": "m/e", "name": "e", "files": [
        {"name": "e/a_ops.go", "src": e_ops},
        {"name": "e/e.go", "src": ehdr + "package e\n\n// PT0 is restricted to its package.\n// @packageonly\ntype PT0 struct{ X int }\n"}]})
    ls = ["package u", "", "import ("] + (['\t"unsafe"', ""] if v.get("unsafe") else []) + ['\t"m/d"', '\t"m/e"', ")", ""] + \
         (["var _ = unsafe.Sizeof(0)", ""] if v.get("unsafe") else []) + ["// UT is u's own immutable type.", "// @immutable", "type UT struct{ X int }", "",
          "// Get hands out a d.T.", "func Get() *d.T { return d.NewT() }", "", "// RT re-exports d's type under a name of u.", "type RT = d.T", "", "// A3u claims an interface it does not implement.", "// @implements d.I",
          "type A3u struct{}"]
    expect.add(("u/a.go", len(ls), "IMPL03"))
    ls += ["", "func use(p *d.T, s d.S, sp *d.S, ut *UT) {"]
    for code, text in use_lines(v, "u", 1000):
        ls.append(text)
        if code:
            expect.add(("u/a.go", len(ls), code))
    ls.append("\tut.X = 1099")
    expect.add(("u/a.go", len(ls), "IMM01"))
    ls.append("\t_ = d.PT0{X: 1097}")
    expect.add(("u/a.go", len(ls), "PKGO01"))
    ls.append("\t_ = e.PT0{X: 1098}")
    expect.add(("u/a.go", len(ls), "PKGO01"))
    ls += ["}", ""]
    pkgs.append({"path": "m/u", "name": "u", "files": [{"name": "u/a.go", "src": "\n".join(ls) + "\n"}]})
    # w
    diamond = v["shape"] == "diamond"
    ls = ["package w", "", "import (", '\t"m/u"'] + (['\t"m/d"'] if diamond else []) + [")", ""]
    if diamond:
        ls += ["func use(p *d.T, s d.S, sp *d.S) {"]
        for code, text in use_lines(v, "w", 2000):
            ls.append(text)
            if code:
                expect.add(("w/a.go", len(ls), code))
        ls += ["}", ""]
    ls += ["func through(ut *u.UT) {", "\tu.Get().X = 2098"]
    if diamond:
        # d's annotations are visible in w only when w imports d directly
        expect.add(("w/a.go", len(ls), "IMM01"))
    ls.append("\tut.X = 2099")
    expect.add(("w/a.go", len(ls), "IMM01"))
    # d's type named through u's exported alias: still d's type, and still visible only when w imports d directly
    ls.append("\tvar rt u.RT")
    if diamond:
        expect.add(("w/a.go", len(ls), "CTOR03"))
    ls.append("\trt.X = 2097")
    if diamond:
        expect.add(("w/a.go", len(ls), "IMM01"))
    ls += ["}", ""]
    pkgs.append({"path": "m/w", "name": "w", "files": [{"name": "w/a.go", "src": "\n".join(ls) + "\n"}]})
    # a package that dot-imports d: no qualifier names the import, the annotations take effect all the same
    ls = ["package dotu", "", 'import . "m/d"', "", "func use(p *T) {", "\tp.X = 3001"]
    expect.add(("dotu/a.go", len(ls), "IMM01"))
    ls.append("\t_ = T{X: 3002}")
    expect.add(("dotu/a.go", len(ls), "CTOR01"))
    ls.append("\t_ = TF(3003)")
    expect.add(("dotu/a.go", len(ls), "TONL02"))
    ls.append("\t_ = PT0{X: 3004}")
    expect.add(("dotu/a.go", len(ls), "PKGO01"))
    ls += ["}", ""]
    pkgs.append({"path": "m/dotu", "name": "dotu", "files": [{"name": "dotu/a.go", "src": "\n".join(ls) + "\n"}]})
    return {"id": sid, "pkgs": pkgs}, expect
