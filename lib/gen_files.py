"""Concretisation of Files.tla scenarios (C14)."""
import gen_all

XDECL = ["// XT is declared in the file under test.", "// @immutable", "type XT struct{ X int }", "",
         "// XF is a test helper declared in the file under test.", "// @testonly", "func XF(n int) int { return n }", ""]


def build_files(sc, sid):
    s = sc["sc"]
    cls = s["cls"]
    pkgs = [{"path": "m/d", "name": "d", "files": [{"name": "d/d.go", "src": gen_all.D_SRC}]},
            {"path": "m/lib", "name": "lib", "files": [{"name": "lib/lib.go", "src": "package lib\n\n// I is a contract.\ntype I interface {\n\tM()\n}\n"}]}]
    where = {}
    # ---- file X
    xdir, xpkg, xname = {
        "sibling": ("p", "p", "b.go"), "test": ("p", "p", "b_test.go"), "xtest": ("p", "p_test", "x_test.go"),
        "tdpath": ("xtestdatax", "q", "q.go"), "genpath": ("zzGen", "q", "q.go"),
        "testdecl": ("p", "p", "b_test.go"), "linehdr": ("p", "p", "b.go"),
        "genfile": ("p", "p", "b_zzGen.go"), "genfirst": ("p", "p", "0_zzGen.go"), "gentest": ("p", "p", "b_zzGen_test.go"),
    }[cls]
    x = []
    if s["ign"]:
        x.append("// @ignore ALL")
    x += ["package " + xpkg, "", "import (", '\t"m/d"', '\t"m/lib"', ")", "", "var _ lib.I", ""]
    if s["ann"]:
        x += XDECL
    if s["viol"]:
        x += ["func xv(p *d.T) {", "\tp.X = 3"]
        where["X1"] = ("%s/%s" % (xdir, xname), len(x), "IMM01")
        x.append("\t_ = d.TF(4)")
        where["X2"] = ("%s/%s" % (xdir, xname), len(x), "TONL02")
        x += ["}", ""]
        x.append("var xg = d.TF(6)")
        where["X3"] = ("%s/%s" % (xdir, xname), len(x), "TONL02")
        x.append("")
    x.append("var _ d.S")
    if xpkg == "p":
        x += ["", "// M of Box does not have the signature d.I asks for."]
        x.append("func (b Box) M() {}")
        where["A5x"] = ("%s/%s" % (xdir, xname), len(x), "IMPL03")
    xsrc = "\n".join(x) + "\n"
    if cls == "linehdr":
        # the directive is line 1 on disk: line k of the list above is line k of zzGen/b.go
        xsrc = "//line zzGen/b.go:1\n" + xsrc
        for k in list(where):
            where[k] = ("p/zzGen/b.go", where[k][1], where[k][2])
    # ---- a.go
    a = ["package p", "", "import ("] + (['\tq "m/%s"' % xdir] if cls in ("tdpath", "genpath") and s["ann"] else []) + ['\t"m/d"', ")", "",
         "func base(p *d.T) {", "\tp.X = 1"]
    where["A1"] = ("p/a.go", len(a), "IMM01")
    a += ["}", ""]
    if s["ann"] and cls != "testdecl":
        xt = "q.XT" if cls in ("tdpath", "genpath") else "XT"
        a += ["func viaX(x *%s) {" % xt, "\tx.X = 2"]
        where["A2"] = ("p/a.go", len(a), "IMM01")
        a.append("\t_ = %sXF(5)" % ("q." if cls in ("tdpath", "genpath") else ""))
        where["A3"] = ("p/a.go", len(a), "TONL02")
        a += ["}", ""]
    # the qualifier lib is not bound in a.go (only file X imports m/lib)
    a += ["// AI claims an interface of a package this file does not import.", "// @implements lib.I", "type AI struct{}"]
    where["A4"] = ("p/a.go", len(a), "IMPL01")
    a += ["", "func (AI) M() {}", "", "// Box claims d.I; its only method M is declared in another file.", "// @implements d.I", "type Box struct{}"]
    where["A5"] = ("p/a.go", len(a), "IMPL03")
    a.append("")
    asrc = "\n".join(a) + "\n"
    pfiles = [{"name": "p/a.go", "src": asrc}]
    if cls in ("tdpath", "genpath"):
        pkgs.append({"path": "m/" + xdir, "name": "q", "files": [{"name": "%s/%s" % (xdir, xname), "src": xsrc}]})
        pkgs.append({"path": "m/p", "name": "p", "files": pfiles})
    elif cls == "xtest":
        pkgs.append({"path": "m/p", "name": "p", "files": pfiles})
        pkgs.append({"path": "m/p_test", "name": "p_test", "files": [{"name": "p/x_test.go", "src": xsrc}]})
    elif cls == "testdecl":
        # XT / XF are declared in the in-package test file; the external test package of the directory uses them
        pfiles.append({"name": "p/" + xname, "src": xsrc})
        pkgs.append({"path": "m/p", "name": "p", "files": pfiles})
        xt = ["package p_test", "", 'import "m/p"', "", "func useX(x *p.XT) {", "\tx.X = 2"]
        where["A2t"] = ("p/x_test.go", len(xt), "IMM01")
        xt += ["\t_ = p.XF(5)", "}", ""]
        pkgs.append({"path": "m/p_test", "name": "p_test", "files": [{"name": "p/x_test.go", "src": "\n".join(xt) + "\n"}]})
    else:
        pfiles.append({"name": "p/" + xname, "src": xsrc})
        pfiles.sort(key=lambda f: f["name"])
        pkgs.append({"path": "m/p", "name": "p", "files": pfiles})
    expect = {where[k] for k in sc["expect"]}
    return {"id": sid, "pkgs": pkgs}, expect, where


def cfg_of(sc):
    s = sc["sc"]
    return {"scan_tests": "true" if s["scan"] else "false", "exclude_paths": ",".join(sorted(s["paths"]))}
