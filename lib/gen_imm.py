"""Concretisation of Immutable.tla / Constructor.tla scenarios into Go programs.

A scenario is {"ann": {...}, "pkg": "d"|"u", "files": [[container,...],...], "expect": [[f, i, code],...]}.
One container = one top-level declaration holding one tagged statement; the generator records the
line of every tagged statement and its exact text (unique through the number N embedded in it),
so that layout transformations (C12) can re-locate it.
"""

NESTS = {
    "none": ([], []),
    "if": (["if cond {"], ["}"]),
    "else": (["if cond {", "} else {"], ["}"]),
    "for": (["for i := 0; i < 1; i++ {"], ["}"]),
    "range": (["for range ch {"], ["}"]),
    "switch": (["switch {", "case cond:"], ["}"]),
    "select": (["select {", "case <-ch:"], ["}"]),
    "funclit": (["func() {"], ["}()"]),
    "defer": (["defer func() {"], ["}()"]),
    "go": (["go func() {"], ["}()"]),
    "label": (["L%(n)d:", "for {"], ["break L%(n)d", "}"]),
    "funcassign": (["f%(n)d := func() {"], ["}", "f%(n)d()"]),
    "funcvar": (["var f%(n)d = func() {"], ["}", "f%(n)d()"]),
    "funcarg": (["run(func() {"], ["})"]),
    "funcfield": (["_ = struct{ F func() }{F: func() {"], ["}}"]),
    "block": (["{"], ["}"]),
    "ifinit": (["if c%(n)d := cond; c%(n)d {"], ["}"]),
    "typeswitch": (["switch any(cond).(type) {", "case bool:"], ["}"]),
}


class Out:
    """A Go file under construction with line tracking."""

    def __init__(self, name, pkgname):
        self.name = name
        self.lines = ["package " + pkgname, ""]
        self.imports = []
        self.auto_imports = pkgname != "d"
        self.tags = {}  # key -> (line number, text)

    def add(self, *ls):
        self.lines.extend(ls)

    def tagged(self, key, text, indent="\t"):
        self.lines.append(indent + text)
        self.tags[key] = (len(self.lines), text)

    def src(self):
        ls = list(self.lines)
        if self.auto_imports:
            import re as _re
            body = "\n".join(ls)
            self.imports = [imp for pat, imp in (("\\bd\\.", '"m/d"'), ("\\bdd\\.", 'dd "m/d"'), ("\\bq\\.", '"m/q"'), ("\\bo\\.T\\b", '"m/o"'))
                            if _re.search(pat, body)]
            self.auto_imports = False
        if self.imports:
            imp = ["import ("] + ["\t" + i for i in self.imports] + [")", ""]
            ls = ls[:2] + imp + ls[2:]
            shift = len(imp)
            self.tags = {k: (ln + shift if ln > 2 else ln, t) for k, (ln, t) in self.tags.items()}
            self.imports = []
            self.lines = ls
        return "\n".join(ls) + "\n"


def d_package(ann, extra_decls=()):
    # T is the middle spec of a `type ( ... )` group: before it a documented plain type, after it an undocumented one
    ls = ["package d", "", "type (", "\t// P0 is a plain type.", "\tP0 struct{ X int }"]
    ls.append("\t// T is the annotated type of the scenario.")
    if ann.get("noise"):
        ls.append("\t// It mentions @immutable and @constructor NewT mid-sentence, which is inert.")
        ls.append("\t// @packageonly u, m/u, d")
    if ann.get("imm"):
        ls.append("\t// @immutable")
    if ann.get("ctors"):
        for part in ann.get("ctor_spelling", ", ".join(ann["ctors"])).split("\n"):
            ls.append("\t// @constructor " + part)
    ls += ["\tT struct {", "\t\tX  int", "\t\tXs []int", "\t\tMp map[string]int"]
    if ann.get("mut"):
        ls.append("\t\t// @mutable")
    ls += ["\t\tM int", "\t}", "\tTG struct{ X int }", ")", ""]
    # T3 is declared after T and names the same function NewT as (one of) its constructor(s): NewT constructs both
    if ann.get("imm") or ann.get("ctors"):
        ls.append("// T3 is built by NewT as well.")
        if ann.get("imm"):
            ls.append("// @immutable")
        if ann.get("ctors"):
            ls.append("// @constructor NewT")
        ls += ["type T3 struct{ X int }", ""]
    if ann.get("imm"):
        ls.append("// @immutable")
    ls += ["type C int", "", "// T2 is a second annotated type with its own constructor."]
    if ann.get("imm"):
        ls.append("// @immutable")
    if ann.get("ctors"):
        ls.append("// @constructor NewT2")
    ls += ["type T2 struct {", "\tX  int", "\tIn any"] + (["\t// @mutable"] if ann.get("mut") else []) + ["\tM  int", "}", "", "// hidden is unexported but handed out by Hidden; rec is unexported but named by the exported alias Rec."]
    if ann.get("imm"):
        ls.append("// @immutable")
    ls += ["type hidden struct{ X int }", "", "// Hidden hands out a hidden.", "func Hidden() *hidden { return new(hidden) }", ""]
    if ann.get("ctors"):
        ls += ["// rec has a constructor.", "// @constructor newRec"]
    ls += ["type rec struct{ X int }", "", "// Rec is an exported name of rec.", "type Rec = rec", "", "// U is never annotated.", "type U struct {", "\tX  int", "\tXs []int", "\tM  int", "}", "",
           "// Counter is a plain package-level variable.", "var Counter int", ""]
    ls += list(extra_decls)
    return "\n".join(ls) + "\n"


def type_expr(sp, ptr, qual):
    """Spelling of the type of the handle p."""
    t = qual + "T"
    if sp == "direct" or sp == "rename":
        return ("*" if ptr else "") + t
    if sp == "alias":
        return ("*" if ptr else "") + "TA"
    if sp == "alias3":
        return ("*" if ptr else "") + "q.TA"
    if sp == "chain":
        return ("*" if ptr else "") + "TA2"
    if sp == "ptralias":
        return "TP"
    if sp == "ptrchain":
        return "TH"
    if sp == "ptrofalias":
        return "TPA"
    if sp == "paren":
        return ("*" if ptr else "") + "(" + t + ")"
    raise ValueError(sp)


IMM_STMT = {
    "assignX": "%(x)s.X = %(n)d",
    "assignM": "%(x)s.M = %(n)d",
    "multiX": "_, %(x)s.X = 0, %(n)d",
    "compoundX": "%(x)s.X += %(n)d",
    "compoundM": "%(x)s.M += %(n)d",
    "incX": "%(x)s.X++",
    "decX": "%(x)s.X--",
    "incM": "%(x)s.M++",
    "indexXs": "%(x)s.Xs[0] = %(n)d",
    "indexMp": "%(x)s.Mp[\"k\"] = %(n)d",
    "readX": "_ = %(x)s.X + %(n)d",
    "onU": "u%(n)d.X = %(n)d",
    "onTG": "g%(n)d.X = %(n)d",
    "onPkgVar": "%(q)sCounter = %(n)d",
    "onT2": "q%(n)d.X = %(n)d",
    "onT2M": "q%(n)d.M = %(n)d",
    "onHidden": "%(q)sHidden().X = %(n)d",
    "local": "l%(n)d = %(n)d",
    "recvAssign": "*%(x)s = T{X: %(n)d}",
    "recvInc": "*r++",
    "recvDec": "*r--",
    "starPlain": "*r = %(n)d",
    "starPlainInc": "*r++",
}


def build_imm(sc, sid):
    """Immutable scenario -> program + expected key set {(file, line, code)} + tag table."""
    return build_generic(sc, sid, imm_container)


def imm_container(c, n, pkg, qual, handles):
    """Returns (header lines, pre lines, statement text, post lines, footer lines) of one container."""
    x = ("q" if c["kind"] == "pmethQ" else "r") if c["via"] == "r" else "p%d" % n     # every receiver is called r (but pmethQ's: q)
    stmt = IMM_STMT[c["stmt"]] % {"x": x, "n": n, "q": qual}
    if c["stmt"] == "onHidden":
        pass
    if c["sp"] == "fnalias":
        # the type is reached through a function-local alias that is called R in every function
        target, var = ("U", "u%d" % n) if c["stmt"] == "onU" else ("T", "p%d" % n)
        hdr = {"ctor1": "func NewT() {", "other": "func fn%d() {" % n, "init": "func init() {", "ometh": "func (o%d *O) m%d() {" % (n, n)}[c["kind"]]
        return [hdr], ["type R = %s%s" % (qual, target), "var %s *R" % var], stmt, [], ["}"]
    te = type_expr(c["sp"], c["ptr"], qual)
    pre, post = [], []
    params = "p%d %s" % (n, te)
    if c["stmt"] == "onU":
        params = "u%d *%sU" % (n, qual)
    if c["stmt"] in ("onT2", "onT2M"):
        params = "q%d *%sT2" % (n, qual)
    if c["stmt"] == "onTG":
        params = "g%d *%sTG" % (n, qual)
    if c["stmt"] in ("onHidden", "onPkgVar"):
        params = ""
    if c["stmt"] in ("recvInc", "recvDec", "recvAssign") or c["via"] == "r":
        params = ""
    if c["stmt"] == "local":
        pre, post = ["var l%d int" % n], ["_ = l%d" % n]
    if c["stmt"] in ("starPlain", "starPlainInc"):
        params = "r *int"
    k = c["kind"]
    if k in ("init", "pkgvar"):
        # no parameters: the handle is a package-level variable declared in the handles file
        if c["stmt"] == "onU":
            handles.append("var u%d *%sU" % (n, qual))
        elif c["stmt"] in ("onT2", "onT2M"):
            handles.append("var q%d *%sT2" % (n, qual))
        elif c["stmt"] == "onTG":
            handles.append("var g%d *%sTG" % (n, qual))
        elif c["stmt"] in ("starPlain", "starPlainInc"):
            pre = ["var r *int"] + pre
        elif c["stmt"] in ("onHidden", "onPkgVar"):
            pass
        elif c["stmt"] != "local":
            handles.append("var p%d %s" % (n, te))
        params = ""
    hdr = {
        "ctor1": "func NewT(%s) {" % params,
        "ctor2": "func MakeT(%s) {" % params,
        "other": "func fn%d(%s) {" % (n, params),
        "pmeth": "func (r %s) m%d(%s) {" % (type_expr(c["sp"], True, "") if c["via"] == "r" else "*T", n, params),
        "vmeth": "func (r %s) m%d(%s) {" % (type_expr(c["sp"], False, "") if c["via"] == "r" else "T", n, params),
        "pmethQ": "func (q *T) m%d(%s) {" % (n, params),
        "pmeth0": "func (*T) m%d(%s) {" % (n, params),
        "cmeth": "func (r *C) m%d() {" % n,
        "ometh": "func (o%d *O) m%d(%s) {" % (n, n, params),
        "init": "func init() {",
        "pkgvar": "var _ = func() int {",
    }[k]
    ftr = ["}"] if k != "pkgvar" else ["\treturn 0", "}()"]
    return [hdr], pre, stmt, post, ftr


def build_generic(sc, sid, container_fn, d_extra=()):
    pkg = sc["pkg"]
    qual = "" if pkg == "d" else "d."
    handles = []
    files = []
    tags = {}
    uses_alias = uses_alias3 = uses_ptralias = False
    sps = set()
    n = 100
    for fidx, conts in enumerate(sc["files"], 1):
        out = Out("%s/f%d.go" % (pkg, fidx), pkg)
        rename = any(c.get("sp") == "rename" for c in conts)
        need_d = pkg == "u"
        need_q = any(c.get("sp") == "alias3" for c in conts)
        body_uses_d = False
        for cidx, c in enumerate(conts, 1):
            n += 1
            hdr, pre, stmt, post, ftr = container_fn(c, n, pkg, "dd." if rename and pkg == "u" else qual, handles)
            sp = c.get("sp", "direct")
            uses_alias |= sp == "alias"
            uses_alias3 |= sp == "alias3"
            uses_ptralias |= sp == "ptralias"
            sps.add(sp)
            text = "\n".join(hdr + pre + [stmt] + post + ftr)
            if "d." in text:
                body_uses_d = True
            out.add(*hdr)
            for l in pre:
                out.add("\t" + l)
            o, cl = NESTS[c.get("nest", "none")]
            for l in o:
                out.add("\t" + l % {"n": n})
            out.tagged((fidx, cidx), stmt, "\t")
            for l in post:
                out.add("\t" + l)
            for l in cl:
                out.add("\t" + l % {"n": n})
            for l in ftr:
                out.add(l)
            out.add("")
        files.append(out)
    # handles file: package-level variables, helper types, aliases
    h = Out("%s/zz_handles.go" % pkg, pkg)
    h.add("var cond bool", "var ch chan int", "", "func run(f func()) { f() }", "", "// O is an un-annotated local type.", "type O struct{ X int }", "")
    if pkg == "d" and n % 2 == 0 and any(c.get("kind") == "ctor1" for conts in sc["files"] for c in conts):
        # a method of another type that is merely called like the constructor function, declared after it (this file sorts last)
        h.add("// NewT of O has nothing to do with T.", "func (o *O) NewT() {}", "")
    if sps & {"alias", "chain", "ptrofalias"}:
        h.add("type TA = %sT" % qual, "")
    if "chain" in sps:
        h.add("type TA2 = TA", "")
    if sps & {"ptralias", "ptrchain"}:
        h.add("type TP = *%sT" % qual, "")
    if "ptrchain" in sps:
        h.add("type TH = TP", "")
    if "ptrofalias" in sps:
        h.add("type TPA = *TA", "")
    h.add("var _ %sU" % qual, "")
    if pkg != "d" and any(c.get("kind") in ("ctor1", "ctor2") for conts in sc["files"] for c in conts):
        # a using package that has functions called NewT / MakeT also has a type of its own called T, with those functions as its
        # constructors: a different type (without such functions the package declares no annotated type at all)
        h.add("// T is u's own record type; it only shares its name with d.T.", "// @constructor NewT, MakeT", "type T struct{ Own int }", "")
    for l in handles:
        h.add(l)
    files.append(h)
    pkgs = [{"path": "m/d", "name": "d", "files": [{"name": "d/d.go", "src": d_package(sc["ann"], d_extra)}]}]
    if uses_alias3:
        pkgs.append({"path": "m/q", "name": "q", "files": [{"name": "q/q.go", "src": 'package q\n\nimport "m/d"\n\ntype TA = d.T\n'}]})
    if any(c.get("stmt") == "litOT" for conts in sc["files"] for c in conts):
        pkgs.append({"path": "m/o", "name": "o", "files": [{"name": "o/o.go", "src": "package o\n\n// T is not annotated; it shares its name with d.T.\ntype T struct{ X int }\n"}]})
    gofiles = []
    for out in files:
        src = out.src()
        gofiles.append({"name": out.name, "src": src})
        for k, (ln, t) in out.tags.items():
            tags[k] = (out.name, ln, t)
    if pkg == "d":
        pkgs[0]["files"] += gofiles
    else:
        # the first file of the using package imports only "unsafe": the first import of the package carries no annotations
        if sum(map(ord, sid)) % 3 == 0:
            # every third program: this first file also imports another package that is *named* d (m/o2/d, no annotations): two files of
            # the package bind the same local name to different packages
            gofiles.insert(0, {"name": "u/a0_sizes.go", "src": 'package u\n\nimport (\n\t"unsafe"\n\n\t"m/o2/d"\n)\n\nvar _ = unsafe.Sizeof(0)\n\nvar _ d.Plain\n'})
            pkgs.append({"path": "m/o2/d", "name": "d", "files": [{"name": "o2/d/d.go", "src": "package d\n\n// Plain has no annotations.\ntype Plain struct{ X int }\n"}]})
        else:
            gofiles.insert(0, {"name": "u/a0_sizes.go", "src": 'package u\n\nimport "unsafe"\n\nvar _ = unsafe.Sizeof(0)\n'})
        if sum(map(ord, sid)) % 2 == 0:
            # every other program: the using package has an in-package test file without annotations or violations
            # (go vet analyses such a package only as its test variant)
            gofiles.append({"name": "u/zz_internal_test.go", "src": "package u\n\nfunc helperForTests() int { return 1 }\n"})
        pkgs.append({"path": "m/u", "name": "u", "files": gofiles})
    expect = set()
    for f, i, code in sc["expect"]:
        fn, ln, _ = tags[(f, i)]
        expect.add((fn, ln, code))
    return {"id": sid, "pkgs": pkgs}, expect, tags


# ------------------------------------------------------------------ Constructor.tla
CTOR_SPELL_1 = {1: "NewT", 2: "NewT trailing words"}
CTOR_SPELL_2 = {1: "NewT, MakeT", 2: "NewT,MakeT", 3: "NewT ,MakeT", 4: "NewT, MakeT and trailing words", 5: "NewT,  MakeT",
                6: "NewT\nMakeT"}    # 6: two separate @constructor lines

CTOR_STMT = {
    "lit": ("_ = %(t)s{X: %(n)d}", "var g%(n)d = %(t)s{X: %(n)d}"),
    "addrLit": ("_ = &%(t)s{X: %(n)d}", "var g%(n)d = &%(t)s{X: %(n)d}"),
    "elidedVal": ("_ = []%(t)s{{X: %(n)d}}", "var g%(n)d = []%(t)s{{X: %(n)d}}"),
    "elidedPtr": ("_ = []*%(t)s{{X: %(n)d}}", None),
    "elidedMap": ("_ = map[int]%(t)s{0: {X: %(n)d}}", None),
    "new": ("v%(n)d := new(%(t)s)", "var g%(n)d = new(%(t)s)"),
    "varZero": ("var v%(n)d %(t)s", "var g%(n)d %(t)s"),
    "varPtr": ("var v%(n)d *%(t)s", "var g%(n)d *%(t)s"),
    "varBlank": ("var _ %(t)s", None),
    "varGroup": ("\tv%(n)d %(t)s", "\tg%(n)d %(t)s"),
    "onU": ("_ = %(q)sU{X: %(n)d}", None),
    "litTG": ("_ = %(q)sTG{X: %(n)d}", None),
    "litOT": ("_ = o.T{X: %(n)d}", None),
    "lit2": ("_ = %(q)sT2{X: %(n)d}", "var g%(n)d = %(q)sT2{X: %(n)d}"),
    "nestNewInLit2": ("_ = %(q)sT2{X: %(n)d, In: new(%(q)sT)}", None),
    "new2": ("v%(n)d := new(%(q)sT2)", "var g%(n)d = new(%(q)sT2)"),
    "varZero2": ("var v%(n)d %(q)sT2", "var g%(n)d %(q)sT2"),
    "litRec": ("_ = %(q)sRec{X: %(n)d}", "var g%(n)d = %(q)sRec{X: %(n)d}"),
    "newRec": ("v%(n)d := new(%(q)sRec)", "var g%(n)d = new(%(q)sRec)"),
    "varRec": ("var v%(n)d %(q)sRec", "var g%(n)d %(q)sRec"),
}


def ctor_ann(ann):
    a = dict(ann)
    if a.get("ctors"):
        tab = CTOR_SPELL_1 if len(a["ctors"]) == 1 else CTOR_SPELL_2
        a["ctor_spelling"] = tab.get(a.get("csp", 1), tab[1])
    return a


def ctor_container(c, n, pkg, qual, handles):
    sp = c.get("sp", "direct")
    t = {"direct": qual + "T", "rename": qual + "T", "alias": "TA", "alias3": "q.TA", "chain": "TA2", "ptralias": "TP", "paren": "(" + qual + "T)", "fnalias": "R"}[sp]
    k = c["kind"]
    tmpl = CTOR_STMT[c["stmt"]][1 if k == "pkgdecl" else 0]
    if sp == "ptralias":
        tmpl = tmpl.replace("*%(t)s", "TP")
    stmt = tmpl % {"t": t, "n": n, "q": qual}
    fnpre = []
    if sp == "fnalias":
        fnpre = ["type R = %s%s" % (qual, "U" if c["stmt"] == "onU" else "T")]
        if c["stmt"] == "onU":
            stmt = "_ = R{X: %d}" % n
    post = []
    if k != "pkgdecl" and c["stmt"] in ("new", "varZero", "varPtr", "new2", "varZero2", "newRec", "varRec"):
        post = ["_ = v%d" % n]
    group = ["var (", "\th%d = func() int {" % n, "\t\tconst k%d = %d" % (n, n), "\t\treturn k%d" % n, "\t}"]
    if k == "pkgdecl" and c["stmt"] == "varGroup":
        return group, [], stmt.lstrip("\t"), [], [")"]
    if k == "pkgdecl":
        return [], [], stmt, [], []
    if c["stmt"] == "varGroup":
        fnpre = fnpre + group
        post = [")", "_, _ = h%d, v%d" % (n, n)]
    hdr = {
        "ctor1": "func NewT() {",
        "ctor2": "func MakeT() {",
        "other": "func fn%d() {" % n,
        "pmeth": "func (r *T) m%d() {" % n,
        "ometh": "func (o%d *O) m%d() {" % (n, n),
        "init": "func init() {",
        "pkgvar": "var _ = func() int {",
    }[k]
    ftr = ["}"] if k != "pkgvar" else ["\treturn 0", "}()"]
    return [hdr], fnpre, stmt, post, ftr


def build_ctor(sc, sid):
    sc = dict(sc)
    sc["ann"] = ctor_ann(sc["ann"])
    return build_generic(sc, sid, ctor_container)
