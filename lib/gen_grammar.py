"""Concretisation of Grammar.tla lines and placements (C15, C09)."""
import zlib


LETTERS = "aBcDeFgHkM"
DIGITS = "1234567890"
OTHER_KW = {"testonly": "@immutable", "Immutable": "@immutable", "at_space_immutable": "@immutable", "no_at_immutable": "@immutable"}


def rest_text(kw, rest):
    """Characters of the rest; returns (text, char offsets list so that model ranges map to substrings)."""
    out = []
    nl = nd = nsp = 0
    for c in rest:
        if c == "SP":
            nsp += 1
            out.append("\t" if nsp % 3 == 0 else " ")
        elif c == "L":
            out.append(LETTERS[nl % len(LETTERS)])
            nl += 1
        elif c == "Lc":
            out.append(LETTERS[(nl - 1) % len(LETTERS)].swapcase())
        elif c == "U":
            out.append("_")
        elif c == "D":
            out.append(DIGITS[nd % len(DIGITS)])
            nd += 1
        elif c == "SL":
            out.append("/")
        elif c == "DA":
            out.append("-")
        elif c == "DO":
            out.append(".")
        elif c == "CO":
            out.append(",")
        elif c == "AM":
            out.append("&")
        elif c == "X":
            out.append("!")
        elif c == "N":
            out.append("é")
        elif c == "K2":
            out.append(OTHER_KW.get(kw, "@testonly"))
        else:
            raise ValueError(c)
    return out


PRE = {"": "", "sp": " ", "tab": "\t", "spsp": "  ", "text": " see ", "slashes": " // ", "slashes0": "//", "tabslashes": "\t// "}
KWTEXT = {"Immutable": "@Immutable", "at_space_immutable": "@ immutable", "no_at_immutable": "immutable"}


def line_text(line):
    kw = line["kw"]
    parts = rest_text(kw, line["rest"])
    body = PRE[line["pre"]] + KWTEXT.get(kw, "@" + kw) + "".join(parts)
    if line["opener"] == "/*":
        return "/*" + body + " */", parts
    return "//" + body, parts


def sub(parts, rng):
    return "".join(parts[rng[0] - 1:rng[1]])


def expectation(sc, parts):
    """What the model says the line is: None (inert), "unspec", or (kind, args)."""
    res = sc["res"]
    kw = sc["line"]["kw"]
    if res["rec"] == "unspec":
        return "unspec"
    if res["rec"] != "yes" or not sc.get("effect", True):
        return None
    if kw == "implements":
        return ("implements", (res["ptr"], sub(parts, res["pkg"]) if res["pkg"] else "", sub(parts, res["names"][0])))
    if kw == "constructor":
        return ("constructor", tuple(sub(parts, r) for r in res["names"]))
    if kw == "packageonly":
        return ("packageonly", tuple(sub(parts, r) for r in res["names"]))
    if kw == "ignore":
        return ("ignore", tuple(sub(parts, r).upper() for r in res["names"]))
    return (kw, ())


class FileBuilder:
    """One package, many declarations, each carrying one comment line at a placement."""

    def __init__(self, pkgname):
        self.pkg = pkgname
        self.pkgdoc = []   # lines of the package documentation (site packageDoc)
        self.lines = ["package " + pkgname, ""]
        self.items = []   # (scenario index, item name, kind of item, expectation, comment line number)
        self.n = 0

    def add(self, idx, sc):
        text, parts = line_text(sc["line"])
        exp = expectation(sc, parts)
        kw = sc["line"]["kw"]
        site = sc.get("site", "doc")
        self.n += 1
        n = self.n
        L = self.lines
        name = "T%d" % n
        item = "type"
        if site == "doc":
            if kw == "mutable":
                site = "fieldDocImm"
            elif kw == "ignore":
                site = "ignoreFunc"
            elif kw in ("testonly", "packageonly"):
                site = ("typeDoc", "funcDoc", "methodDoc")[n % 3]
            else:
                site = "typeDoc"
        if exp and exp != "unspec" and exp[0] == "mutable":
            exp = ("mutable", ("F", "G") if site == "fieldDocImmMulti" else ("F",))
        if site in ("typeDoc", "typeDocCaseTwins"):
            L += [text, "type %s struct{ F int }" % name, ""]
        elif site == "groupDoc":
            L += [text, "type (", "\t%s struct{ F int }" % name, ")", ""]
        elif site == "specDoc":
            L += ["type (", "\t" + text, "\t%s struct{ F int }" % name, ")", ""]
        elif site == "funcDoc":
            name, item = "F%d" % n, "func"
            L += [text, "func %s() {}" % name, ""]
        elif site == "methodDoc":
            name, item = "M%d" % n, "method"
            L += ["type R%d struct{}" % n, "", text, "func (r R%d) %s() {}" % (n, name), ""]
        elif site == "ignoreFunc" and zlib.crc32(text.encode()) % 3 == 0:     # (a property of the line, so that a replay builds the same shape)
            # a second directive line with another code in the same comment group: each line is a directive of its own
            name, item = "G%d" % n, "ignore2"
            L += [text, "// @ignore CTOR02", "func %s() {}" % name, ""]
        elif site == "ignoreFunc":
            name, item = "G%d" % n, "ignore"
            L += [text, "func %s() {}" % name, ""]
        elif site == "fieldDocImm":
            item = "field"
            L += ["// @immutable", "type %s struct {" % name, "\t" + text, "\tF int", "}", ""]
        elif site == "fieldDocImmMulti":
            item = "field"
            L += ["// @immutable", "type %s struct {" % name, "\t" + text, "\tF, G int", "}", ""]
        elif site == "fieldDocPlain":
            item = "field"
            L += ["type %s struct {" % name, "\t" + text, "\tF int", "}", ""]
        elif site == "embeddedDocImm":
            item = "field"
            L += ["type E%d struct{ F int }" % n, "", "// @immutable", "type %s struct {" % name, "\t" + text, "\tE%d" % n, "}", ""]
        elif site == "fieldLineImm":
            item = "field"
            L += ["// @immutable", "type %s struct {" % name, "\tF int " + text, "}", ""]
        elif site == "trailingType":
            L += ["type %s struct{ F int } %s" % (name, text), ""]
        elif site == "localType":
            L += ["func loc%d() {" % n, "\t" + text, "\ttype %s struct{ F int }" % name, "\tvar _ %s" % name, "}", ""]
        elif site == "varDoc":
            name, item = "V%d" % n, "other"
            L += [text, "var %s int" % name, ""]
        elif site == "constDoc":
            name, item = "C%d" % n, "other"
            L += [text, "const %s = 1" % name, ""]
        elif site == "ifaceMethodDoc":
            name, item = "IM%d" % n, "other"
            L += ["type I%d interface {" % n, "\t" + text, "\t%s()" % name, "}", ""]
        elif site == "detachedDoc":
            L += [text, "", "type %s struct{ F int }" % name, ""]
        elif site == "blockDoc":
            L += ["/*" + text[2:] + " */", "type %s struct{ F int }" % name, ""]
        elif site == "blockSlashLine":
            L += ["/*", text, "*/", "type %s struct{ F int }" % name, ""]
        elif site == "groupSecondSpec":
            L += ["type (", "\t" + text, "\tT%da struct{ F int }" % n, "", "\t%s struct{ F int }" % name, ")", ""]
        elif site == "afterDirectiveDoc":
            L += ["var v%d = 3 %s" % (n, text), "", "//go:generate echo %s" % name, "type %s struct{ F int }" % name, ""]
        elif site == "packageDoc":
            # the line goes in front of the package clause; the item is an exported type (with an exported function) of the file
            name = "PD%d" % n
            self.pkgdoc.append(text)
            L += ["type %s struct{ F int }" % name, "", "func PDF%d() {}" % n, ""]
        elif site == "insideBody":
            L += ["func body%d() {" % n, "\t" + text, "\ttype %s struct{ F int }" % name, "\tvar _ %s" % name, "}", ""]
        else:
            raise ValueError(site)
        self.items.append((idx, name, item, exp, site, text))

    def program(self, pid):
        return {"id": pid, "pkgs": [{"path": "m/" + self.pkg, "name": self.pkg,
                                     "files": [{"name": "%s/a.go" % self.pkg, "src": "\n".join(
                                         (["// Package %s is generated for the grammar check." % self.pkg] + self.pkgdoc if self.pkgdoc else []) + self.lines) + "\n"}]}]}


def observed(result, pkgpath):
    """name -> set of (kind, args) read by the real annotation reader / ignore reader."""
    out = {}
    ann = (result.get("ann") or {}).get(pkgpath) or {}

    def add(name, v):
        out.setdefault(name, set()).add(v)
    for a in ann.get("ImplementsAnnotations") or []:
        add(a["OnType"], ("implements", (a["IsPointer"], a["PackageName"], a["InterfaceName"])))
    for a in ann.get("ConstructorAnnotations") or []:
        add(a["OnType"], ("constructor", tuple(a["ConstructorNames"] or [])))
    for a in ann.get("ImmutableAnnotations") or []:
        add(a["OnType"], ("immutable", ()))
    for a in ann.get("TestonlyAnnotations") or []:
        add(a["ObjectName"], ("testonly", ()))
    mut = {}
    for a in ann.get("MutableAnnotations") or []:
        mut.setdefault(a["OnType"], set()).add(a["FieldName"])
    for t, fields in mut.items():
        add(t, ("mutable", tuple(sorted(fields))))
    for a in ann.get("PackageOnlyAnnotations") or []:
        add(a["ObjectName"], ("packageonly", tuple((a["AllowedPackages"] or [])[1:])))
    return out
