"""Concretisation of Implements.tla scenarios (C05)."""
import re


def render(term, where):
    """A type term as written in package `where` ("u", "d", "bar"); alias qualifier x for the alias family."""
    if where == "d":
        return re.sub(r"\bd\.", "", term)
    return term


def param(term, variadic, where):
    t = render(term, where)
    if variadic:
        return "p ..." + t
    return "p " + t


def build_impl(sc0, sid):
    sc = sc0["sc"]
    qual = sc["qual"]
    # where the interface lives
    ipkg, ipath, iname = {"none": ("u", "m/u", "u"), "declared": ("d", "m/d", "d"), "alias": ("d", "m/d", "d"),
                          "diffname": ("bar", "m/go-bar", "bar"), "selfname": ("d", "m/d", "d"), "unbound": ("d", "m/d", "d"),
                          "lastelem": ("bar", "m/gobar", "bar")}[qual]
    idecl = []
    if sc["ikind"] == "iface":
        idecl = ["// I is the contract.", "type I interface {", "\tM(%s) %s" % (param(sc["pI"], sc["vI"], ipkg), render(sc["rI"], ipkg))]
        if sc["two"]:
            idecl.append("\tExtra()")
        idecl += ["}", ""]
    elif sc["ikind"] == "embedOnly":
        idecl = ["// I1 declares the method.", "type I1 interface {", "\tM(%s) %s" % (param(sc["pI"], sc["vI"], ipkg), render(sc["rI"], ipkg)), "}", "",
                 "// I is the contract: it only embeds I1.", "type I interface {", "\tI1"]
        if sc["two"]:
            idecl.append("\tExtra()")
        idecl += ["}", ""]
    elif sc["ikind"] == "nonIface":
        idecl = ["// I is not an interface.", "type I struct{}", ""]
    d = ["package d", "", "type N struct{}", "", "type AN = N", "", "// V is never implemented by the scenario's types.", "type V interface {", "\tNope()", "}", "",
         "// E0 is implemented by everything.", "type E0 interface{}", "",
         "// Sealed can only be implemented by embedding a type of this package.", "type Sealed interface {", "\tseal()", "}", "",
         "type Base struct{}", "", "func (Base) seal() {}", "", "type PBase struct{}", "", "func (*PBase) seal() {}", ""]
    bar = ["package bar", "", "type N struct{}", ""]
    if ipkg == "d":
        d += idecl
    if ipkg == "bar":
        bar += idecl
    # the using package
    u = ["package u", ""]
    imports = []
    uses_d = any(re.search(r"\bd\.", sc[k]) for k in ("pT", "rT")) or (ipkg == "u" and any(re.search(r"\bd\.", sc[k]) for k in ("pI", "rI")))
    q = {"none": "", "declared": "d.", "alias": "x.", "diffname": "bar.", "selfname": "u.", "unbound": "nope.", "lastelem": "gobar."}[qual]
    if qual in ("declared", "unbound") or (uses_d and qual != "alias"):
        imports.append('"m/d"')
    if qual == "alias":
        imports.append('x "m/d"')
    if qual == "diffname":
        imports.append('"m/go-bar"')
    if qual == "lastelem":
        imports.append('"m/gobar"')
    if qual == "selfname":
        imports.append('"m/e"')
    if sc.get("shadow"):
        imports.append('xshadow "m/x/MODSELF/d"')
    if imports:
        u += ["import ("] + ["\t" + i for i in sorted(set(imports), key=lambda x: x.split('"')[1])] + [")", ""]
    if sc.get("shadow"):
        u += ["var _ xshadow.N", ""]
    if '"m/d"' in imports:
        u += ["var _ d.N", ""]
    if qual == "alias":
        u += ["var _ x.N", ""]
    if qual in ("diffname", "lastelem"):
        u += ["var _ bar.N", ""]
    if qual == "selfname":
        u += ["var _ e.E", ""]
    u += ["type A = int", ""]
    if ipkg == "u":
        u += idecl
    iface_name = "Sealed" if sc.get("sealed") else "I"
    second = sc.get("second", "none")
    sec_line = {"unbound": "// @implements nope2.J", "viol": "// @implements d.V", "ok": "// @implements d.E0"}.get(second[:-1])
    u += ["// T is the annotated type."]
    if sec_line and second.endswith("1"):
        u.append(sec_line)
    u.append("// @implements %s%s%s" % ("&" if sc["cptr"] else "", q, iface_name))
    if sec_line and second.endswith("2"):
        u.append(sec_line)
    line_of_T = None
    meth = []
    if sc["recv"] != "none":
        owner = "T" if sc["via"] == "direct" else "E"
        r = ("x *%s" if sc["recv"] == "pointer" else "x %s") % owner
        meth = ["func (%s) M(%s) %s {" % (r, param(sc["pT"], sc["vT"], "u"), render(sc["rT"], "u")), "\tvar z %s" % render(sc["rT"], "u"), "\treturn z", "}", ""]
    if sc.get("sealed"):
        meth = []
        base = "d.PBase" if sc["recv"] == "pointer" else "d.Base"
        emb = {"foreignVal": base, "foreignPtr": "*" + base, "foreignIface": "d.Sealed"}[sc["via"]]
        u.append("type T struct{ %s }" % emb)
        line_of_T = len(u)
        u.append("")
    elif sc["via"] == "direct":
        # T is the first spec of a group; the undocumented TG after it claims nothing
        k0 = max(i for i, l in enumerate(u) if l == "// T is the annotated type.")
        doc = u[k0:]
        del u[k0:]
        u += ["type ("] + ["\t" + l for l in doc] + ["\tT struct{}"]
        line_of_T = len(u)
        u += ["\tTG struct{}", ")", ""]
    else:
        u.append("type T struct{ %sE }" % ("*" if sc["via"] == "embedPtr" else ""))
        line_of_T = len(u)
        u += ["", "type E struct{}", ""]
    u += meth
    pkgs = [{"path": "m/d", "name": "d", "files": [{"name": "d/d.go", "src": "\n".join(d) + "\n"}]}]
    if qual == "diffname":
        pkgs.append({"path": "m/go-bar", "name": "bar", "files": [{"name": "go-bar/bar.go", "src": "\n".join(bar) + "\n"}]})
    if qual == "lastelem":
        pkgs.append({"path": "m/gobar", "name": "bar", "files": [{"name": "gobar/bar.go", "src": "\n".join(bar) + "\n"}]})
    if qual == "selfname":
        pkgs.append({"path": "m/e", "name": "e", "files": [{"name": "e/e.go", "src": "package e\n\ntype E struct{}\n"}]})
    if sc.get("shadow"):
        pkgs.append({"path": "m/x/MODSELF/d", "name": "d", "files": [{"name": "x/MODSELF/d/d.go", "src": "package d\n\ntype N struct{}\n\n// I is another contract with the same name.\ntype I interface {\n\tOther()\n}\n"}]})
    ufiles = [{"name": "u/u.go", "src": "\n".join(u) + "\n"}]
    if sc.get("sib") == "binds":
        # an earlier file of the package binds the qualifier's name to a package without I
        qn = {"declared": "d", "alias": "x", "unbound": "nope"}[qual]
        ufiles.insert(0, {"name": "u/a_first.go", "src": "package u\n\nimport %s \"m/e\"\n\nvar _ %s.E\n" % (qn, qn)})
        if not any(pk["path"] == "m/e" for pk in pkgs):
            pkgs.append({"path": "m/e", "name": "e", "files": [{"name": "e/e.go", "src": "package e\n\ntype E struct{}\n"}]})
    pkgs.append({"path": "m/u", "name": "u", "files": ufiles})
    prog = {"id": sid, "pkgs": pkgs, "query": {"pkg": "m/u", "type": "T", "ptr": sc["cptr"], "iface_pkg": ipath, "iface": iface_name}}
    expect = (sc0["code"], tuple(sorted(sc0["missing"])), line_of_T)
    return prog, expect


MISSING_RE = re.compile(r"^  (\w+)\(", re.M)


def observed_all(diags):
    """Set of (code, missing method names) over all IMPL diagnostics."""
    out = set()
    for d in diags:
        if d["code"] and d["code"].startswith("IMPL"):
            out.add(observed([d])[:2])
    return out


def observed(diags):
    """(code, missing method names, line) of the IMPL diagnostic on u/u.go, or ("none", (), None)."""
    impl = [d for d in diags if d["code"] and d["code"].startswith("IMPL")]
    if not impl:
        return ("none", (), None)
    if len(impl) > 1:
        return ("several", tuple(sorted(d["code"] for d in impl)), None)
    d = impl[0]
    names = ()
    if d["code"] == "IMPL03":
        head = d["msg"].split("\n  |")[0] if "\n  |" in d["msg"] else d["msg"]
        body = d["msg"].split("missing methods:\n", 1)[1] if "missing methods:\n" in d["msg"] else ""
        # the listing ends where the source excerpt starts
        body = re.split(r"\n\s*\|\n|\n\s+\|", body)[0]
        names = tuple(sorted(set(MISSING_RE.findall(body))))
    return (d["code"], names, d["line"])


def universes_program(sid="C05_universes"):
    """A package with an in-package test (so that the standalone driver type-checks it twice: plain and test variant), an
    importer, and an external test that imports the importer: implementers of one interface live in both type-checking
    universes.  Returns (program for the real drivers, expected (file, line, code) keys)."""
    store = """package store

// Key names an item.
type Key string

// Item is a stored value.
type Item struct {
	K Key
	V []byte
}

// Store is the contract.
type Store interface {
	Get(k Key) (Item, error)
	Put(k Key, it Item) error
	Keys() []Key
}

// Sizer mentions universe types only.
type Sizer interface {
	Size() int
}
"""
    internal = """package store

// helper of the in-package test: makes the test variant differ from the plain package
func testKey() Key { return Key("k") }
"""
    mem = """package mem

import "m/store"

// Mem is a correct implementation.
// @implements &store.Store
// @implements &store.Sizer
type Mem struct{ m map[store.Key]store.Item }

func (m *Mem) Get(k store.Key) (store.Item, error) { return m.m[k], nil }

func (m *Mem) Put(k store.Key, it store.Item) error { m.m[k] = it; return nil }

func (m *Mem) Keys() []store.Key { return nil }

func (m *Mem) Size() int { return len(m.m) }

// ReadOnly lacks Put.
// @implements &store.Store
type ReadOnly struct{}

func (r *ReadOnly) Get(k store.Key) (store.Item, error) { return store.Item{}, nil }

func (r *ReadOnly) Keys() []store.Key { return nil }
"""
    ext = """package store_test

import (
	"m/store"
	"m/store/mem"
)

// fakeStore is a correct test double.
// @implements &store.Store
// @implements &store.Sizer
type fakeStore struct{}

func (f *fakeStore) Get(k store.Key) (store.Item, error) { return store.Item{}, nil }

func (f *fakeStore) Put(k store.Key, it store.Item) error { return nil }

func (f *fakeStore) Keys() []store.Key { return nil }

func (f *fakeStore) Size() int { return 0 }

var _ = mem.Mem{}
"""
    prog = {"id": sid, "pkgs": [
        {"path": "m/store", "name": "store", "files": [{"name": "store/store.go", "src": store},
                                                         {"name": "store/internal_test.go", "src": internal},
                                                         {"name": "store/ext_test.go", "src": ext}]},
        {"path": "m/store/mem", "name": "mem", "files": [{"name": "store/mem/mem.go", "src": mem}]}]}
    line = mem.split("\n").index("type ReadOnly struct{}") + 1
    return prog, {("store/mem/mem.go", line, "IMPL03")}
