"""Probe module and concretisation of Config.tla scenarios (C18, C08)."""
import random

import gen_all

TEST_SRC = """package p

import "m/d"

func helperForTests(p *d.T) {
	p.X += 7
}
"""
TD_SRC = """package q

import "m/d"

func use() {
	_ = d.T{X: 1}
}
"""
TDTEST_SRC = """package q

import "m/d"

func helperInExcludedDir(p *d.T) {
	p.X++
}
"""
GEN_SRC = """package g

import "m/d"

func use() {
	_ = d.TF(1)
}
"""


IGN_SRC = """package ig

import "m/d"

func multi(p *d.T) {
	// @ignore IMM01, CTOR01
	p.X, _ = 1, d.T{X: 2}
	_ = d.T{X: 3} // @ignore ctor01 , imm
	p.X = 4 // @ignore CTOR01, IMM01
}

// @ignore TONL, PKGO02
func multi2() int {
	return d.TF(5) + d.PF(6)
}
"""


NEST_SRC = """package nest

import "m/d"

func nested(s d.S) {
	_ = d.TT{X: d.TF(1)}
	_ = d.TT{X: s.TM(2)}
	_ = d.PT{X: d.PF(3)}
	_ = d.PT{X: s.PM(4)}
	_ = d.T{X: len(new(d.T).Xs)}
}
"""


TCTX_SRC = """package tctx

import "m/d"

// helper is a test helper itself: what it uses is exempt.
// @testonly
func helper(s d.S) int {
	return d.TF(1) + s.TM(2) + d.TT{X: 3}.X
}
"""


CHAIN_SRC = """package chain

import "m/d"

func chained() {
	_ = d.MkTS().TM(1)
	_ = d.MkS().PM(2)
}

// A claims two interfaces and implements neither.
// @implements nope.I
// @implements d.I
type A struct{}
"""


def probe():
    src, where = gen_all.use_file("p", "p/a.go")
    src2, _ = gen_all.use_file("w", "w/a.go")
    # an @ignore directive that matches nothing, in the middle of the file: project-wide exclusions must also
    # apply to diagnostics that lie before / after the span of the package's own @ignore markers
    src2 = src2.replace("\t_ = d.T{X: 1005}", "\t_ = d.T{X: 1005} // @ignore ZZZ9")
    prog = {"id": "probe", "pkgs": [
        {"path": "m/d", "name": "d", "files": [{"name": "d/d.go", "src": gen_all.D_SRC}]},
        {"path": "m/p", "name": "p", "files": [{"name": "p/a.go", "src": src}, {"name": "p/a_test.go", "src": TEST_SRC}]},
        {"path": "m/w", "name": "w", "files": [{"name": "w/a.go", "src": src2}]},
        {"path": "m/xtestdatax", "name": "q", "files": [{"name": "xtestdatax/q.go", "src": TD_SRC}, {"name": "xtestdatax/q_test.go", "src": TDTEST_SRC}]},
        {"path": "m/zzgen", "name": "g", "files": [{"name": "zzgen/g.go", "src": GEN_SRC}]},
        {"path": "m/ig", "name": "ig", "files": [{"name": "ig/ig.go", "src": IGN_SRC}]},
        {"path": "m/nest", "name": "nest", "files": [{"name": "nest/n.go", "src": NEST_SRC}]},
        {"path": "m/tctx", "name": "tctx", "files": [{"name": "tctx/t.go", "src": TCTX_SRC}]},
        {"path": "m/chain", "name": "chain", "files": [{"name": "chain/c.go", "src": CHAIN_SRC}]},
    ]}
    cls = {"w/a.go": "regular2", "p/a.go": "regular", "p/a_test.go": "test", "xtestdatax/q.go": "tdpath", "xtestdatax/q_test.go": "tdtest", "zzgen/g.go": "genpath", "ig/ig.go": "ignored", "nest/n.go": "nested", "tctx/t.go": "tctx", "chain/c.go": "chain"}
    return prog, cls


TRUE_LIKE = ["true", "1", "yes", "on", "t", "TRUE", " on ", "True", "YES", "T", " 1 ", "On", "yEs"]
FALSE_LIKE = ["false", "0", "no", "off", "f", "FALSE", " off ", "F", "False", "No"]
GARBAGE = ["maybe", "2", "yess", "tru e", "nope", "enable", "y", "oui", "-1", "true,false"]


# entries that are substrings of no file name as they stand (items are matched as written: no path cleaning, no globbing)
NOMATCH = ["nomatch", "zzge/", "./", "vendor/..", "zzgen/../zzge", "zzgen//g", "*.go", "zzgen/*"]


def nomatch_spellings(items, rng):
    return [rng.choice(NOMATCH) if it == "nomatch" else it for it in items]


def anycase(v, rng):
    """The spellings are case-insensitive: half of the time use a random mix of upper and lower case."""
    if rng.random() < 0.5:
        return v
    return "".join(c.upper() if rng.random() < 0.5 else c.lower() for c in v)


def list_string(items, rng, upper_noise=False):
    items = list(items)
    rng.shuffle(items)
    out = []
    for it in items:
        if upper_noise:
            it = "".join(c.lower() if rng.random() < 0.5 else c.upper() for c in it)
        pad = rng.choice(["", " ", "  ", "\t"])
        out.append(pad + it + rng.choice(["", " "]))
        if rng.random() < 0.25:
            out.append(rng.choice(["", " "]))          # an empty item
    if rng.random() < 0.2:
        out.append("")                                  # trailing comma
    if not items and rng.random() < 0.5:
        out = [rng.choice(["", " ", " , "])]
    return ",".join(out)


def mixed(v):
    """Alternate lower / upper case, starting lower: tRuE, yEs, oN, fAlSe."""
    out, up = [], False
    for c in v:
        if c.isalpha():
            out.append(c.upper() if up else c.lower())
            up = not up
        else:
            out.append(c)
    return "".join(out)


def concretise(sc, rng, force_mixed=False):
    """Returns (env dict, argv list)."""
    env, argv = {}, []
    e, a = sc["env"], sc["argv"]
    if e["scan"] == "empty":
        env["GOGREEMENT_SCAN_TESTS"] = ""
    elif e["scan"] == "true":
        env["GOGREEMENT_SCAN_TESTS"] = mixed(rng.choice(["true", "yes", "on", " true ", "t"])) if force_mixed else anycase(rng.choice(TRUE_LIKE), rng)
    elif e["scan"] == "false":
        env["GOGREEMENT_SCAN_TESTS"] = mixed(rng.choice(["false", "no", "off", "f"])) if force_mixed else anycase(rng.choice(FALSE_LIKE), rng)
    elif e["scan"] == "garbage":
        env["GOGREEMENT_SCAN_TESTS"] = rng.choice(GARBAGE)
    if a["scan"] == "true":
        argv.append(rng.choice(["--config.scan-tests=true", "--config.scan-tests", "-config.scan-tests=1", "--config.scan-tests=T"]))
    elif a["scan"] == "false":
        argv.append(rng.choice(["--config.scan-tests=false", "-config.scan-tests=0", "--config.scan-tests=F"]))
    if e["paths"]["given"]:
        env["GOGREEMENT_EXCLUDE_PATHS"] = list_string(nomatch_spellings(e["paths"]["items"], rng), rng)
    if a["paths"]["given"]:
        argv.append("--config.exclude-paths=" + list_string(nomatch_spellings(a["paths"]["items"], rng), rng))
    if e["checks"]["given"]:
        env["GOGREEMENT_EXCLUDE_CHECKS"] = list_string(e["checks"]["items"], rng, True)
    if a["checks"]["given"]:
        argv.append("--config.exclude-checks=" + list_string(a["checks"]["items"], rng, True))
    return env, argv
