"""Corpora for C09 / C10: the standard library in place, and annotated clones of standard-library packages."""
import json
import os
import random
import re
import shutil
import subprocess

import vlib

KEYWORD_RE = re.compile(r"^\s*//\s*@(implements|constructor|immutable|testonly|mutable|packageonly)\b", re.M)


def go_list(patterns, cwd=None):
    r = subprocess.run(["go", "list", "-json"] + patterns, cwd=cwd or vlib.REPO, env=vlib.go_env(), stdout=subprocess.PIPE,
                       stderr=subprocess.PIPE, text=True)
    out, dec, i, pk = r.stdout, json.JSONDecoder(), 0, []
    while i < len(out):
        while i < len(out) and out[i] != "{":
            i += 1
        if i >= len(out):
            break
        o, i = dec.raw_decode(out, i)
        pk.append(o)
    return pk


def clonable_std():
    pk = go_list(["std"])
    ok = []
    for p in pk:
        imps = p.get("Imports", [])
        if any("internal" in x or x.startswith("vendor/") or x in ("unsafe", "C") for x in imps):
            continue
        if p.get("SFiles") or p.get("CgoFiles") or "internal" in p["ImportPath"] or p["ImportPath"].startswith("vendor") or p["ImportPath"] == "unsafe":
            continue
        ok.append(p)
    return ok


def has_keyword_lines(pkg):
    for f in pkg.get("GoFiles", []) + pkg.get("TestGoFiles", []) + pkg.get("XTestGoFiles", []):
        try:
            if KEYWORD_RE.search(open(os.path.join(pkg["Dir"], f), errors="replace").read()):
                return True
        except OSError:
            pass
    return False


TYPE_ANN = ["// @immutable", "// @constructor New%(n)s", "// @constructor New%(n)s, Make%(n)s", "// @testonly", "// @packageonly",
            "// @packageonly other, x/y-z.w", "// @implements io.Reader", "// @implements Stringer", "// @implements &fmt.Stringer",
            "// @implements &%(n)s", "// @immutable trailing words @constructor", "//\t@testonly", "// @constructor", "// @ignore IMPL",
            "// @implements nosuchpkg.Iface"]
FUNC_ANN = ["// @testonly", "// @packageonly", "// @packageonly x/y", "// @testonly and more", "// @ignore ALL", "// @ignore CTOR, IMM"]
JUNK = ["// @Immutable", "// see @immutable", "/* @testonly */", "// @constructorX", "// @ ignore IMM01", "// @ignore", "// @ignore !!", "// \xe9\xe8 @mutable",
        "// @implements a.b.c", "// @packageonly ,", "// @constructor 1x"]
STMT_IGN = ["// @ignore IMM01", "// @ignore CTOR", "// @ignore ALL", "// @ignore tonl01, pkgo", "// @ignore FOO9"]


def inject(src, rng, density=0.5):
    """Insert annotation / near-miss / @ignore comments above random top-level declarations and statements."""
    lines = src.split("\n")
    out = []
    annotated_types = []
    in_struct = False
    in_raw = False
    for l in lines:
        if l.count("`") % 2 == 1:
            in_raw = not in_raw
            out.append(l)
            continue
        if in_raw:
            out.append(l)
            continue
        m = re.match(r"^type ([A-Za-z_]\w*) (struct|interface|func|map|\[\]|[a-z])", l)
        if m and "=" not in l.split("//")[0][:len(m.group(0)) + 2] and rng.random() < density:
            k = rng.randrange(1, 3)
            for a in rng.sample(TYPE_ANN + JUNK[:4], k):
                out.append(a % {"n": m.group(1)})
            annotated_types.append(m.group(1))
            in_struct = m.group(2) == "struct" and l.rstrip().endswith("{")
            out.append(l)
            continue
        if re.match(r"^func (\([^)]*\) )?[A-Za-z_]\w*\(", l) and rng.random() < density:
            out.append(rng.choice(FUNC_ANN + JUNK))
            out.append(l)
            in_struct = False
            continue
        if in_struct and re.match(r"^\t[A-Za-z_]\w*\s+\S", l) and rng.random() < 0.3:
            out.append("\t// @mutable")
        if l.startswith("}"):
            in_struct = False
        if re.match(r"^\t+[a-zA-Z_][\w.]*(\[[^\]]*\])? (:=|=|\+=|\+\+)", l) and rng.random() < 0.04:
            out.append(re.match(r"^\t+", l).group(0) + rng.choice(STMT_IGN))
        out.append(l)
    return "\n".join(out), annotated_types


def build_annotated_corpus(ctx, seed, npkgs, inject_density=0.5):
    """Scratch module `corp` with annotated clones of std packages and a package that uses their annotated types.
    Returns (root, [package import paths])."""
    rng = random.Random(seed)
    cands = clonable_std()
    rng.shuffle(cands)
    root = os.path.join(ctx.scratch, "corp%d" % seed)
    os.makedirs(root, exist_ok=True)
    open(os.path.join(root, "go.mod"), "w").write("module corp\n\ngo 1.25\n")
    chosen = []
    uses = []
    for p in cands:
        if len(chosen) >= npkgs:
            break
        dname = p["ImportPath"].replace("/", "_")
        dst = os.path.join(root, dname)
        os.makedirs(dst)
        types = []
        for f in p.get("GoFiles", []):
            src = open(os.path.join(p["Dir"], f), errors="replace").read()
            new, ann = inject(src, rng, inject_density)
            types += [t for t in ann if t[0].isupper()]
            open(os.path.join(dst, f), "w").write(new)
        r = subprocess.run(["go", "build", "./" + dname], cwd=root, env=vlib.go_env(), stdout=subprocess.PIPE, stderr=subprocess.STDOUT, text=True)
        if r.returncode != 0:
            # the injection broke the package (or it cannot live under another path): fall back to the plain copy, else drop it
            for f in p.get("GoFiles", []):
                shutil.copy(os.path.join(p["Dir"], f), os.path.join(dst, f))
            r = subprocess.run(["go", "build", "./" + dname], cwd=root, env=vlib.go_env(), stdout=subprocess.PIPE, stderr=subprocess.STDOUT, text=True)
            if r.returncode != 0:
                shutil.rmtree(dst)
                continue
            types = []
        chosen.append("corp/" + dname)
        uses += [(dname, p["Name"], t) for t in types[:6]]
    # a package that uses the annotated exported types of the clones from outside
    if uses:
        udir = os.path.join(root, "zuse")
        os.makedirs(udir)
        imps = sorted({(d, n) for d, n, _ in uses})
        alias = {d: "p%d" % i for i, (d, n) in enumerate(imps)}
        ls = ["package zuse", "", "import ("] + ['\t%s "corp/%s"' % (alias[d], d) for d, n in imps] + [")", ""]
        for i, (d, n, t) in enumerate(uses):
            ls += ["var v%d %s.%s" % (i, alias[d], t), "", "func f%d() any { return new(%s.%s) }" % (i, alias[d], t), ""]
        open(os.path.join(udir, "use.go"), "w").write("\n".join(ls) + "\n")
        r = subprocess.run(["go", "build", "./zuse"], cwd=root, env=vlib.go_env(), stdout=subprocess.PIPE, stderr=subprocess.STDOUT, text=True)
        if r.returncode != 0:
            shutil.rmtree(udir)   # generic or otherwise unusable types: keep the clones only
        else:
            chosen.append("corp/zuse")
    return root, chosen


def run_traced(ctx, root, patterns, driver="binary", cfg_args=(), env_extra=None, timeout=900, prefix=None):
    """Run the instrumented build over packages; returns (events list, ok flag, stderr tail)."""
    gg = ctx.binary("ggtrace")
    tr = os.path.join(ctx.scratch, "corpus_%d.ndjson" % random.randrange(10 ** 9))
    env = vlib.go_env({"VERIF_TRACE": tr})
    if prefix:
        env["VERIF_TRACE_PREFIX"] = prefix
    if env_extra:
        env.update(env_extra)
    if driver == "binary":
        cmd = [gg, "-json"] + ["--" + a for a in cfg_args] + patterns
    else:
        cmd = ["go", "vet", "-vettool=" + gg] + ["-" + a for a in cfg_args] + patterns
    try:
        r = subprocess.run(cmd, cwd=root, env=env, stdout=subprocess.PIPE, stderr=subprocess.PIPE, text=True, timeout=timeout)
        rc, se, so = r.returncode, r.stderr, r.stdout
        hang = False
    except subprocess.TimeoutExpired:
        rc, se, so, hang = -1, "timeout", "", True
    crashed = hang or vlib.crashed(se)
    if driver == "binary":
        ok = (not crashed) and rc == 0
    else:
        ok = (not crashed) and rc in (0, 1)
    events = []
    if os.path.exists(tr):
        for line in open(tr):
            line = line.strip()
            if line:
                e = json.loads(line)
                if e["ev"] in ("Start", "End"):
                    ev = {"ev": e["ev"], "a": e["a"], "p": e["p"], "pid": e["pid"]}
                    if e["ev"] == "End":
                        ev["ndiags"] = e.get("ndiags", 0)
                        if e.get("err"):
                            ev["err"] = e["err"][:200]
                    events.append(ev)
        os.remove(tr)
    return events, ok, (se[-1500:] if not ok else ""), so
