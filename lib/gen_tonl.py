"""Concretisation of TestOnly.tla and PackageOnly.tla scenarios."""
from gen_imm import Out


def tonl_d(ann):
    t = ["// @testonly"] if ann["type"] else []
    f = ["// @testonly"] if ann["func"] else []
    m = ["// @testonly"] if ann["meth"] else []
    ls = ["package d", "", "// TT is a helper."] + t + ["type TT struct{ X int }", "", "// TT2 is another helper."] + t + \
         ["type TT2 struct{ X int }", "", "type S struct{}", "", "// TF is a helper."] + f + \
         ["func TF(n int) int { return n }", "", "// TM is a helper."] + m + \
         ["func (s S) TM(n int) int { return n }", "", "func PF(n int) int { return n }", "",
          "func (s S) PM(n int) int { return n }", ""]
    return "\n".join(ls) + "\n"


O_SRC = "package o\n\n// TT shares its name with d.TT.\n// @testonly\ntype TT struct{ X int }\n"


def build_tonl(sc, sid):
    pkg = sc["pkg"]
    q = "" if pkg == "d" else "d."
    files = []
    tags = {}
    n = 100
    for fidx, fl in enumerate(sc["files"], 1):
        name = "%s/f%d%s.go" % (pkg, fidx, "_test" if fl["test"] else "")
        out = Out(name, pkg)
        for cidx, c in enumerate(fl["conts"], 1):
            n += 1
            u, ctx = c["use"], c["ctx"]
            key = (fidx, cidx)
            doc = ["// @testonly"] if ctx in ("tofunc", "tometh") else []
            params = ""
            if u in ("callM", "callPM"):
                params = "s%d %sS" % (n, q)
            recv = "(h%d *H) " % n if ctx in ("pmeth", "tometh") else ""
            if u == "fieldTT":
                out.add("type H%d struct {" % n)
                out.tagged(key, "f%d %sTT" % (n, q))
                out.add("}", "")
                continue
            if u == "paramTT":
                out.add(*doc)
                out.tagged(key, "func %sfn%d(x%d %sTT) {" % (recv, n, n, q), "")
                out.add("}", "")
                continue
            if u == "resultTT":
                out.add(*doc)
                out.tagged(key, "func %sfn%d() (y%d *%sTT) {" % (recv, n, n, q), "")
                out.add("\treturn nil", "}", "")
                continue
            out.add(*doc)
            out.add("func %sfn%d(%s) {" % (recv, n, params))
            pre, post = [], []
            stmt = {
                "callF": "_ = %sTF(%d)" % (q, n),
                "callM": "_ = s%d.TM(%d)" % (n, n),
                "callPF": "_ = %sPF(%d)" % (q, n),
                "callPM": "_ = s%d.PM(%d)" % (n, n),
                "shadow": "_ = TF(%d)" % n,
                "litTT": "_ = %sTT{X: %d}" % (q, n),
                "varTT": "var v%d %sTT" % (n, q),
                "varPtrTT": "var v%d *%sTT" % (n, q),
                "litTT2": "_ = %sTT2{X: %d}" % (q, n),
                "litOTT": "_ = o.TT{X: %d}" % n,
            }[u]
            if u == "shadow":
                pre = ["TF := func(n int) int { return n }"]
            if u in ("varTT", "varPtrTT"):
                post = ["_ = v%d" % n]
            for l in pre:
                out.add("\t" + l)
            out.tagged(key, stmt)
            for l in post:
                out.add("\t" + l)
            out.add("}", "")
        files.append(out)
    h = Out("%s/zz_handles.go" % pkg, pkg)
    h.add("// H is a local receiver type.", "type H struct{}", "", "var _ %sS" % q, "")
    files.append(h)
    gofiles = []
    uses_o = False
    for out in files:
        body = "\n".join(out.lines)
        if "o.TT" in body:
            uses_o = True
            out.auto_imports = False
            out.imports = (['"m/d"'] if "d." in body.replace("o.TT", "") and pkg != "d" else []) + ['"m/o"']
        src = out.src()
        gofiles.append({"name": out.name, "src": src})
        for k, (ln, t) in out.tags.items():
            tags[k] = (out.name, ln, t)
    pkgs = [{"path": "m/d", "name": "d", "files": [{"name": "d/d.go", "src": tonl_d(sc["ann"])}]}]
    if uses_o:
        pkgs.append({"path": "m/o", "name": "o", "files": [{"name": "o/o.go", "src": O_SRC}]})
    if pkg == "d":
        pkgs[0]["files"] += gofiles
    else:
        pkgs.append({"path": "m/u", "name": "u", "files": gofiles})
    expect = set()
    for f, i, code in sc["expect"]:
        fn, ln, _ = tags[(f, i)]
        expect.add((fn, ln, code))
    return {"id": sid, "pkgs": pkgs}, expect, tags


# ------------------------------------------------------------------ PackageOnly.tla
PKG_DIR = {"d": ("d", "d", "m/d"), "u": ("u", "u", "m/u"), "v": ("vv", "v", "m/vv")}


def pkgo_d(lines):
    ann = []
    for l in lines:
        ann.append("// @packageonly" + ((" " + ", ".join(l)) if l else ""))
    ls = ["package d", "", "// PT is restricted."] + ann + ["type PT struct{ X int }", "",
          "// PT2 is restricted to d.", "// @packageonly", "type PT2 struct{ X int }", "", "type S struct{}", "",
          "// PF is restricted."] + ann + ["func PF(n int) int { return n }", "", "// PM is restricted."] + ann + \
         ["func (s S) PM(n int) int { return n }", "", "// Q and QF are not annotated.", "type Q struct{ X int }", "",
          "func QF(n int) int { return n }", ""]
    return "\n".join(ls) + "\n"


def build_pkgo(sc, sid):
    pkg = sc["pkg"]
    pdir, pname, ppath = PKG_DIR[pkg]
    q = "" if pkg == "d" else "d."
    files = []
    tags = {}
    n = 100
    for fidx, refs in enumerate(sc["files"], 1):
        out = Out("%s/f%d.go" % (pdir, fidx), pname)
        out.auto_imports = pkg != "d"
        for cidx, r in enumerate(refs, 1):
            n += 1
            key = (fidx, cidx)
            if r == "typeField":
                out.add("type H%d struct {" % n)
                out.tagged(key, "f%d %sPT" % (n, q))
                out.add("}", "")
                continue
            if r == "typeParam":
                out.tagged(key, "func fn%d(x%d %sPT) {" % (n, n, q), "")
                out.add("}", "")
                continue
            if r == "typeResult":
                out.tagged(key, "func fn%d() (y%d *%sPT) {" % (n, n, q), "")
                out.add("\treturn nil", "}", "")
                continue
            params = "s%d %sS" % (n, q) if r in ("methCall", "methValue") else ""
            out.add("func fn%d(%s) {" % (n, params))
            post = []
            stmt = {
                "callF": "_ = %sPF(%d)" % (q, n),
                "funcValue": "f%d := %sPF" % (n, q),
                "methCall": "_ = s%d.PM(%d)" % (n, n),
                "methValue": "f%d := s%d.PM" % (n, n),
                "typeLit": "_ = %sPT{X: %d}" % (q, n),
                "typeVar": "var v%d %sPT" % (n, q),
                "typeLit2": "_ = %sPT2{X: %d}" % (q, n),
                "plain": "_ = %sQF(%d) + %sQ{X: %d}.X" % (q, n, q, n),
            }[r]
            if r in ("funcValue", "methValue"):
                post = ["_ = f%d" % n]
            if r == "typeVar":
                post = ["_ = v%d" % n]
            out.tagged(key, stmt)
            for l in post:
                out.add("\t" + l)
            out.add("}", "")
        files.append(out)
    gofiles = []
    for out in files:
        src = out.src()
        gofiles.append({"name": out.name, "src": src})
        for k, (ln, t) in out.tags.items():
            tags[k] = (out.name, ln, t)
    pkgs = [{"path": "m/d", "name": "d", "files": [{"name": "d/d.go", "src": pkgo_d(sc["lines"])}]}]
    if pkg == "d":
        pkgs[0]["files"] += gofiles
    else:
        pkgs.append({"path": ppath, "name": pname, "files": gofiles})
    expect = set()
    for f, i, code in sc["expect"]:
        fn, ln, _ = tags[(f, i)]
        expect.add((fn, ln, code))
    return {"id": sid, "pkgs": pkgs}, expect, tags
