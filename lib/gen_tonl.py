"""Concretisation of TestOnly.tla and PackageOnly.tla scenarios."""
from gen_imm import Out


def tonl_d(ann):
    t = ["// @testonly"] if ann["type"] else []
    f = ["// @testonly"] if ann["func"] else []
    m = ["// @testonly"] if ann["meth"] else []
    ls = ["package d", "", "type (", "\t// TT is a helper."] + ["\t" + x for x in t] + ["\tTT struct{ X int }", "\tTG struct{ X int }", ")", "",
          "// TT2 is another helper."] + t + \
         ["type TT2 struct{ X int }", "", "type S struct{}", "", "// tfLower is an unexported helper, declared before the exported one."] + f + \
         ["func tfLower(n int) int { return n }", "", "// TF is a helper."] + f + \
         ["func TF(n int) int { return n }", "", "// TM is a helper."] + m + \
         ["func (s S) TM(n int) int { return n }", "", "func PF(n int) int { return n }", "",
          "func (s S) PM(n int) int { return n }", "", "// hid is unexported; Default hands out a value of it.", "type hid struct{}", "",
          "var Default hid", "", "// HTM is a helper."] + m + ["func (h hid) HTM(n int) int { return n }", "",
          "// MkS is a helper that hands out an S."] + f + ["func MkS() S { return S{} }", "",
          ] + (["// PF of S is a helper method with a parenthesised receiver; the function PF is not a helper.", "// @testonly",
                "func (s (S)) PF(n int) int { return n }", ""] if ann["meth"] else []) + \
         ["// TMP is a helper; its receiver is written with parentheses."] + m + ["func (s (S)) TMP(n int) int { return n }", ""] + (["// TTM is a helper method of the helper type; it exists only as a @testonly method (its receiver names TT in a non-test file).",
                "// @testonly", "func (t TT) TTM(n int) int { return n }", ""] if ann["meth"] else [])
    return "\n".join(ls) + "\n"


O_SRC = "package o\n\n// TT shares its name with d.TT.\n// @testonly\ntype TT struct{ X int }\n"


def build_tonl(sc, sid):
    pkg = sc["pkg"]
    q = "" if pkg == "d" else "d."
    files = []
    tags = {}
    spells = set()
    extra_types = []
    n = 100
    for fidx, fl in enumerate(sc["files"], 1):
        name = "%s/f%d%s.go" % (pkg, fidx, "_test" if fl["test"] else "")
        out = Out(name, pkg)
        for cidx, c in enumerate(fl["conts"], 1):
            n += 1
            u, ctx = c["use"], c["ctx"]
            sp = c.get("sp", "direct")
            spells.add(sp)
            TT = {"direct": q + "TT", "alias": "TA", "alias3": "q.TA", "chain": "TA2", "ptralias": "TP", "ptrchain": "TH", "ptrofalias": "TPA",
                  "rename": "dd.TT" if pkg != "d" else "TT", "paren": "(" + q + "TT)"}[sp]
            PTT = TT if sp.startswith("ptr") else "*" + TT
            key = (fidx, cidx)
            doc = ["// @testonly"] if ctx in ("tofunc", "tometh") else []
            params = ""
            if u in ("callM", "callPM", "callMparen"):
                params = "s%d %sS" % (n, q)
            recv = "(h%d *H) " % n if ctx in ("pmeth", "tometh", "pmethTF") else ""
            fname = "TF" if ctx == "pmethTF" else "fn%d" % n   # a method named like the @testonly function (each on its own receiver type)
            if ctx == "pmethTF":
                recv = "(h%d *HT%d) " % (n, n)
                extra_types.append("type HT%d struct{}" % n)
            if u == "fieldTT":
                out.add("type H%d struct {" % n)
                out.tagged(key, "f%d %s" % (n, TT))
                out.add("}", "")
                continue
            if u == "paramTT":
                out.add(*doc)
                out.tagged(key, "func %sfn%d(x%d %s) {" % (recv, n, n, TT), "")
                out.add("}", "")
                continue
            if u == "resultTT":
                out.add(*doc)
                out.tagged(key, "func %sfn%d() (y%d %s) {" % (recv, n, n, PTT), "")
                out.add("\treturn nil", "}", "")
                continue
            out.add(*doc)
            out.add("func %s%s(%s) {" % (recv, fname, params))
            pre, post = [], []
            stmt = {
                "callF": "_ = %sTF(%d)" % (q, n),
                "callM": "_ = s%d.TM(%d)" % (n, n),
                "callMvar": "_ = gs.TM(%d)" % n,
                "callHM": "_ = %sDefault.HTM(%d)" % (q, n),
                "chainFM": "_ = %sMkS().TM(%d)" % (q, n),
                "chainLM": "_ = %sTT{X: %d}.TTM(%d)" % (q, n, n),
                "litTG": "_ = %sTG{X: %d}" % (q, n),
                "callFlit": "_ = %sTF(%sTT{X: %d}.X)" % (q, q, n),
                "callPF": "_ = %sPF(%d)" % (q, n),
                "callPM": "_ = s%d.PM(%d)" % (n, n),
                "callLower": "_ = tfLower(%d)" % n,
                "callMparen": "_ = s%d.TMP(%d)" % (n, n),
                "callMpkgvar": "_ = d.TM(%d)" % n,
                "shadow": "_ = TF(%d)" % n,
                "litTT": "_ = %s{X: %d}" % (TT, n),
                "elidedTT": "_ = []%s{{X: %d}}" % (TT, n),
                "varTT": "var v%d %s" % (n, TT),
                "varPtrTT": "var v%d %s" % (n, PTT),
                "litTT2": "_ = %sTT2{X: %d}" % (q, n),
                "litOTT": "_ = o.TT{X: %d}" % n,
            }[u]
            if u == "shadow":
                pre = ["TF := func(n int) int { return n }"]
            if u == "callMpkgvar":
                pre = ["d := d.S{}"]
            if u in ("varTT", "varPtrTT"):
                post = ["_ = v%d" % n]
            for l in pre:
                out.add("\t" + l)
            out.tagged(key, stmt)
            for l in post:
                out.add("\t" + l)
            out.add("}", "")
        files.append(out)
    h = Out("%s/zz_handles.go" % pkg, pkg)
    h.add("// H is a local receiver type.", "type H struct{}", "", "var gs %sS" % q, "")
    if spells & {"alias", "chain", "ptrofalias"}:
        h.add("type TA = %sTT" % q, "")
    if "chain" in spells:
        h.add("type TA2 = TA", "")
    if spells & {"ptralias", "ptrchain"}:
        h.add("type TP = *%sTT" % q, "")
    if "ptrchain" in spells:
        h.add("type TH = TP", "")
    if "ptrofalias" in spells:
        h.add("type TPA = *TA", "")
    for t in extra_types:
        h.add(t, "")
    files.append(h)
    gofiles = []
    uses_o = False
    for out in files:
        body = "\n".join(out.lines)
        if "o.TT" in body:
            uses_o = True
            out.auto_imports = False
            out.imports = (['"m/d"'] if "d." in body.replace("o.TT", "") and pkg != "d" else []) + ['"m/o"']
        src = out.src()
        gofiles.append({"name": out.name, "src": src})
        for k, (ln, t) in out.tags.items():
            tags[k] = (out.name, ln, t)
    pkgs = [{"path": "m/d", "name": "d", "files": [{"name": "d/d.go", "src": tonl_d(sc["ann"])}]}]
    if uses_o:
        pkgs.append({"path": "m/o", "name": "o", "files": [{"name": "o/o.go", "src": O_SRC}]})
    if "alias3" in spells:
        pkgs.append({"path": "m/q", "name": "q", "files": [{"name": "q/q.go", "src": 'package q\n\nimport "m/d"\n\ntype TA = d.TT\n'}]})
    if pkg == "d":
        pkgs[0]["files"] += gofiles
    else:
        # the first file of the using package imports only "unsafe": the first import of the package carries no annotations
        first = 'package u\n\nimport "unsafe"\n\nvar _ = unsafe.Sizeof(0)\n'
        if "alias3" in spells:
            # x0 mentions the alias q.TA without importing d (d's annotations are invisible there), has a @testonly item of its own,
            # and is imported by u: it is analysed before u in every driver. What x0 could not know must not stick to the type.
            pkgs.append({"path": "m/x0", "name": "x0", "files": [{"name": "x0/x0.go", "src":
                         'package x0\n\nimport "m/q"\n\n// helper is a test helper of x0.\n// @testonly\nfunc helper() {}\n\n'
                         '// Box, held and pass mention the alias.\ntype Box struct{ F q.TA }\n\nvar held q.TA\n\n'
                         'func pass(h q.TA) q.TA { return h }\n\nvar _ = q.TA{X: 1}\n\nvar _, _ = held, pass\n'}]})
            first = 'package u\n\nimport (\n\t"unsafe"\n\n\t_ "m/x0"\n)\n\nvar _ = unsafe.Sizeof(0)\n'
        gofiles.insert(0, {"name": "u/a0_sizes.go", "src": first})
        pkgs.append({"path": "m/u", "name": "u", "files": gofiles})
    expect = set()
    for f, i, code in sc["expect"]:
        fn, ln, _ = tags[(f, i)]
        expect.add((fn, ln, code))
    expect |= locals().get("extra_expect", set())
    return {"id": sid, "pkgs": pkgs}, expect, tags


# ------------------------------------------------------------------ PackageOnly.tla
PKG_DIR = {"d": ("d", "d", "m/d"), "u": ("u", "u", "m/u"), "v": ("vv", "v", "m/vv")}


def pkgo_d(lines):
    ann = []
    for l in lines:
        ann.append("// @packageonly" + ((" " + ", ".join(l)) if l else ""))
    ls = ["package d", "", "type (", "\t// PT is restricted."] + ["\t" + a for a in ann] + ["\tPT struct{ X int }", "\tPG struct{ X int }", ")", "",
          "// PT2 is restricted to d.", "// @packageonly", "type PT2 struct{ X int }", "", "type S struct{}", "",
          "// PF is restricted."] + ann + ["func PF(n int) int { return n }", "", "// PM is restricted."] + ann + \
         ["func (s S) PM(n int) int { return n }", "", "// Q and QF are not annotated.", "type Q struct{ X int }", "",
          "func QF(n int) int { return n }", "", "// PS is open to the using packages of the scenarios; its method PSM has a list of its own.",
          "// @packageonly u, v, m/u, m/vv", "type PS struct{}", "", "// PSM is restricted."] + ann + ["func (p PS) PSM(n int) int { return n }", "",
          "// S2 has a method that is also called PM, restricted to d itself.", "type S2 struct{}", "", "// PM of S2 is for d only.", "// @packageonly",
          "func (s S2) PM(n int) int { return n }", "", "// NewPS is restricted."] + ann + ["func NewPS() PS { return PS{} }", "",
          "// hid is unexported; its value Default and its method HM are reachable from outside.", "type hid struct{}", "",
          "// Default is the shared instance.", "var Default hid", "", "// HM is restricted."] + ann + ["func (h hid) HM(n int) int { return n }", "",
          "// state is restricted and unexported; State names it for other packages."] + ann + ["type state struct{ X int }", "",
          "// State is an exported alias.", "type State = state", "",
          "// QF of S is restricted (parenthesised receiver); the function QF is not."] + ann + ["func (s (*S)) QF(n int) int { return n }", ""] + \
         ["// GS is generic: the receiver of its method cannot be named by an identifier.", "type GS[T any] struct{ V T }", "",
          "// QF of GS is restricted; the function QF is not."] + ann + ["func (g *GS[T]) QF(n int) int { return n }", ""]
    return "\n".join(ls) + "\n"


def build_pkgo(sc, sid):
    pkg = sc["pkg"]
    pdir, pname, ppath = PKG_DIR[pkg]
    q = "" if pkg == "d" else "d."
    files = []
    tags = {}
    spells = set()
    n = 100
    for fidx, refs in enumerate(sc["files"], 1):
        out = Out("%s/f%d.go" % (pdir, fidx), pname)
        out.auto_imports = pkg != "d"
        for cidx, r in enumerate(refs, 1):
            n += 1
            key = (fidx, cidx)
            r, _, sp = r.partition("@")
            sp = sp or "direct"
            spells.add(sp)
            PT = {"direct": q + "PT", "alias": "TA", "alias3": "q.TA", "chain": "TA2", "chain3": "q.TA2", "ptralias": "TP", "ptralias3": "q.TP",
                  "ptrchain": "TH", "ptrchain3": "q.TH", "rename": "dd.PT", "paren": "(" + q + "PT)"}[sp]
            PPT = PT if sp.startswith("ptr") else "*" + PT
            if r == "typeField":
                out.add("type H%d struct {" % n)
                out.tagged(key, "f%d %s" % (n, PT))
                out.add("}", "")
                continue
            if r == "typeEmbed":
                out.add("type H%d struct {" % n)
                out.tagged(key, ("*" if n % 2 else "") + PT)
                out.add("\tN%d int" % n, "}", "")
                continue
            if r == "typeParam":
                out.tagged(key, "func fn%d(x%d %s) {" % (n, n, PT), "")
                out.add("}", "")
                continue
            if r == "typeResult":
                out.tagged(key, "func fn%d() (y%d %s) {" % (n, n, PPT), "")
                out.add("\treturn nil", "}", "")
                continue
            params = "s%d %sS" % (n, q) if r in ("methCall", "methValue") else ""
            if r in ("methCallPromoted", "methValuePromoted"):
                params = "e%d Emb" % n
            if r == "methCallPS":
                params = "w%d %sPS" % (n, q)
            if r == "methCallS2":
                params = "z%d %sS2" % (n, q)
            out.add("func fn%d(%s) {" % (n, params))
            post = []
            stmt = {
                "callF": "_ = %sPF(%d)" % (q, n),
                "funcValue": "f%d := %sPF" % (n, q),
                "methCall": "_ = s%d.PM(%d)" % (n, n),
                "methCallVar": "_ = gs.PM(%d)" % n,
                "methCallPS": "_ = w%d.PSM(%d)" % (n, n),
                "methCallHidden": "_ = %sDefault.HM(%d)" % (q, n),
                "methCallS2": "_ = z%d.PM(%d)" % (n, n),
                "chainCall": "_ = %sNewPS().PSM(%d)" % (q, n),
                "aliasPlain": "var v%d Hdr" % n,
                "mapKeyCall": "_ = map[int]int{%sPF(%d): 1}" % (q, n),
                "typeLitPG": "_ = %sPG{X: %d}" % (q, n),
                "typeVarHidden": "var v%d %sState" % (n, q),
                "methCallPromoted": "_ = e%d.PM(%d)" % (n, n),
                "methValuePromoted": "f%d := e%d.PM" % (n, n),
                "methValue": "f%d := s%d.PM" % (n, n),
                "typeLit": "_ = %s{X: %d}" % (PT, n),
                "typeVar": "var v%d %s" % (n, PT),
                "typeLit2": "_ = %sPT2{X: %d}" % (q, n),
                "plain": "_ = %sQF(%d) + %sQ{X: %d}.X" % (q, n, q, n),
            }[r]
            if r in ("funcValue", "methValue", "methValuePromoted"):
                post = ["_ = f%d" % n]
            if r in ("typeVar", "typeVarHidden", "aliasPlain"):
                post = ["_ = v%d" % n]
            out.tagged(key, stmt)
            for l in post:
                out.add("\t" + l)
            out.add("}", "")
        files.append(out)
    disallowed = bool(sc["expect"])
    h = Out("%s/zz_handles.go" % pdir, pname)
    h.auto_imports = pkg != "d"
    h.add("// the using package imports d directly (annotations are visible through direct imports only)", "var _ %sQ" % q, "",
          "var gs %sS" % q, "", "// Emb embeds d.S: the methods of S are promoted to it.", "type Emb struct{ %sS }" % q, "")
    # an alias declaration is itself a reference to d.PT from the declaring package (chains: every link is)
    ALIAS_DECLS = [("TA", "type TA = %sPT", {"alias", "chain", "alias3", "chain3"}), ("TA2", "type TA2 = TA", {"chain", "chain3"}),
                   ("TP", "type TP = *%sPT", {"ptralias", "ptrchain", "ptralias3", "ptrchain3"}), ("TH", "type TH = TP", {"ptrchain", "ptrchain3"})]
    if any(r0.partition("@")[0] == "aliasPlain" for refs0 in sc["files"] for r0 in refs0):
        h.add("// Hdr, ID and PP are aliases of types that are not defined types.", "type Hdr = map[string][]string", "", "type ID = string", "",
              "type PP = *struct{ A int }", "")
    for name, decl, when in ALIAS_DECLS:
        if spells & {w for w in when if not w.endswith("3")}:
            h.tagged("aliasdecl_" + name, decl % q if "%s" in decl else decl, "")
    files.append(h)
    gofiles = []
    for out in files:
        src = out.src()
        gofiles.append({"name": out.name, "src": src})
        for k, (ln, t) in out.tags.items():
            tags[k] = (out.name, ln, t)
    pkgs = [{"path": "m/d", "name": "d", "files": [{"name": "d/d.go", "src": pkgo_d(sc["lines"])}]}]
    extra_expect = set()
    # PKGO01 is reported once per file and type: of the alias declarations of one file only the first is reported
    decl_tags = sorted((tags[k][1], tags[k][0]) for k in tags if isinstance(k, str) and k.startswith("aliasdecl_"))
    if decl_tags and disallowed:
        extra_expect.add((decl_tags[0][1], decl_tags[0][0], "PKGO01"))
    if any(sp.endswith("3") for sp in spells):
        ql = ["package q", "", 'import "m/d"', ""]
        for name, decl, when in ALIAS_DECLS:
            if spells & {w for w in when if w.endswith("3")}:
                ql += [decl % "d." if "%s" in decl else decl, ""]
                if sc["al"] != "none" and not any(e[0] == "q/q.go" for e in extra_expect):
                    extra_expect.add(("q/q.go", len(ql) - 1, "PKGO01"))  # q itself is never on the allow-lists of the spell mode
        pkgs.append({"path": "m/q", "name": "q", "files": [{"name": "q/q.go", "src": "\n".join(ql)}]})
    if pkg == "d":
        pkgs[0]["files"] += gofiles
    else:
        gofiles.insert(0, {"name": "%s/a0_sizes.go" % pdir, "src": 'package %s\n\nimport "unsafe"\n\nvar _ = unsafe.Sizeof(0)\n' % pname})
        pkgs.append({"path": ppath, "name": pname, "files": gofiles})
    expect = set()
    for f, i, code in sc["expect"]:
        fn, ln, _ = tags[(f, i)]
        expect.add((fn, ln, code))
    expect |= locals().get("extra_expect", set())
    return {"id": sid, "pkgs": pkgs}, expect, tags
