"""Replay of TLC-emitted program scenarios into the real analyzers, with reproduction and replay files."""
import json
import os
import random
import re

import proglib
import vlib


def tlc_scenarios(ctx, module, cfg_text, label, timeout=1800, coverage=False, workers=None):
    """Run an exhaustive config that emits one JSON scenario per terminal state."""
    r = ctx.tlc(module, cfg_text, label=label, timeout=timeout, coverage=coverage, workers=workers)
    scs = []
    for e in r["emit"]:
        try:
            scs.append(json.loads(e))
        except ValueError:
            raise vlib.ToolError("unparsable scenario emitted by %s: %r" % (label, e[:200]))
    if not scs:
        raise vlib.ToolError("%s emitted no scenario" % label)
    r["emit"] = None
    return scs, r


def sample(scs, k, seed):
    if k is None or len(scs) <= k:
        return list(scs)
    rng = random.Random(seed)
    return rng.sample(scs, k)


class Replay:
    """Accumulates scenario results for one property."""

    def __init__(self, ctx, cats):
        self.ctx = ctx
        self.cats = cats
        self.run = 0
        self.nontrivial = set()
        self.tool_errors = []
        self.samples = []
        self.crashes = []     # (item, fail text)  -> C10
        self.mismatches = []  # (item, expected, observed)
        self.last_batch = None

    def check(self, items, cfg=None, sequential=False, sanity=True, project=None):
        """items: list of (program, expected keyset, scenario meta). Runs them in one vh process."""
        res = proglib.run_vh(self.ctx, [it[0] for it in items], cfg=cfg, sequential=sequential, sanity=sanity)
        self.last_batch = (items, cfg, sequential, sanity, project)
        for prog, exp, meta in items:
            r = res[prog["id"]]
            self.run += 1
            if r.get("err"):
                self.tool_errors.append((prog["id"], r["err"], meta))
                continue
            if r.get("fail"):
                self.crashes.append(((prog, exp, meta), r["fail"]))
                continue
            got = project(r["diags"]) if project else proglib.keyset(r["diags"], cats=self.cats)
            if exp:
                self.nontrivial.add(json.dumps(meta, sort_keys=True) if not isinstance(meta, str) else meta)
            if got != exp:
                self.mismatches.append(((prog, exp, meta), sorted(got)))
            elif exp and len(self.samples) < 3:
                self.samples.append({"scenario": meta, "expected": sorted(exp), "observed": sorted(got),
                                     "source": prog["pkgs"][-1]["files"][0]["src"][:1200]})
        return res

    def settle(self, cfg=None, max_report=3, describe=None, known=None, project=None):
        """Reproduce mismatches / crashes one by one; report reproduced ones as violations."""
        ctx = self.ctx
        if self.tool_errors:
            pid, err, meta = self.tool_errors[0]
            raise vlib.ToolError("%d generated programs did not load (model/generator error), e.g. %s: %s  scenario=%s"
                                 % (len(self.tool_errors), pid, err[:600], json.dumps(meta)[:600]))
        reported = 0
        for (prog, exp, meta), fail in self.crashes:
            if reported >= max_report:
                break
            r = proglib.run_vh(ctx, [prog], cfg=cfg)[prog["id"]]
            if not r.get("fail") and fail.startswith("PROCESS DIED while analysing the batch") and self.last_batch:
                # the Go runtime killed the process while the programs of the batch were analysed concurrently; alone the program is
                # fine.  Analyse the whole batch twice more: a process that dies again both times is a reproduced failure of the
                # code under test in that context (concurrent passes sharing state), anything else is not a verdict.
                items, bcfg, seq, san, _proj = self.last_batch
                died = []
                for _rep in range(2):
                    res = proglib.run_vh(ctx, [it[0] for it in items], cfg=bcfg, sequential=seq, sanity=san)
                    died.append([pid for pid, rr in res.items() if (rr.get("fail") or "").startswith("PROCESS DIED")])
                if all(died):
                    ctx.violation("%d programs analysed concurrently in one process: the process dies (%s), again in two more runs of the same batch, "
                                  "while each program alone is analysed normally" % (len(items), fail[:300]),
                                  {"kind": "batch_context", "programs": len(items), "mismatching": [died[0][:20], died[1][:20]], "first": [fail[:600]]})
                    return 1
                raise vlib.ToolError("process death in a batch did not recur: %s" % fail[:300])
            if not r.get("fail"):
                raise vlib.ToolError("crash did not reproduce for %s: %s" % (prog["id"], fail[:300]))
            ctx.violation("analysis failed (crash / error / hang): %s" % r["fail"].split("\n")[0][:300],
                          {"kind": "program", "program": prog, "expected": sorted(exp), "cats": sorted(self.cats or []),
                           "cfg": cfg, "scenario": meta, "fail": r["fail"][:3000]})
            reported += 1
        nonrepro = []
        tried = 0
        for (prog, exp, meta), got in self.mismatches:
            if reported >= max_report or tried >= 25:
                break
            tried += 1
            r = proglib.run_vh(ctx, [prog], cfg=cfg)[prog["id"]]
            got2 = project(r["diags"]) if project else proglib.keyset(r["diags"], cats=self.cats)
            if r.get("fail") or r.get("err") or got2 == exp:
                # not reproducible in a process of its own: state leaking between the programs of a batch, or flakiness
                nonrepro.append("%s (first %s, alone %s)" % (prog["id"], got, sorted(got2)))
                continue
            if known:
                kf = known(meta, exp, got2)
                if kf:
                    ctx.known_finding(kf[0], kf[1])
                    continue
            missing = sorted(set(exp) - set(got2))
            extra = sorted(set(got2) - set(exp))
            what = (describe(meta) if describe else json.dumps(meta)[:300])
            ctx.violation("%s: missing %s, unexpected %s" % (what, missing, extra),
                          {"kind": "program", "program": prog, "expected": sorted(exp), "observed": sorted(got2),
                           "cats": sorted(self.cats or []), "cfg": cfg, "scenario": meta})
            reported += 1
        if nonrepro and not reported:
            # In-context reproduction: every program is fine in a process of its own.  Analyse the whole batch (all programs
            # concurrently in one process, each under its own module path) twice more: if programs get wrong diagnostics again
            # both times, the result of an analysis depends on what else is analysed in the same process.
            again = []
            if self.last_batch:
                items, bcfg, seq, san, proj = self.last_batch
                for _rep in range(2):
                    res = proglib.run_vh(ctx, [it[0] for it in items], cfg=bcfg, sequential=seq, sanity=san)
                    bad = []
                    for prog, exp, meta in items:
                        r = res[prog["id"]]
                        if r.get("err"):
                            continue
                        g = None if r.get("fail") else (proj(r["diags"]) if proj else proglib.keyset(r["diags"], cats=self.cats))
                        if g != exp:
                            bad.append(prog["id"])
                    again.append(bad)
            if len(again) == 2 and all(again):
                ctx.violation("%d programs analysed concurrently in one process: %d, then %d and %d of them get other diagnostics than the same "
                              "programs analysed alone (which is what the specification expects), e.g. %s: the result of an analysis depends on what "
                              "else is analysed in the process" % (len(self.last_batch[0]), len(nonrepro), len(again[0]), len(again[1]), nonrepro[0][:400]),
                              {"kind": "batch_context", "programs": len(self.last_batch[0]), "mismatching": [again[0][:20], again[1][:20]],
                               "first": nonrepro[:5]})
                return 1
            raise vlib.ToolError("%d mismatches did not reproduce alone, e.g. %s" % (len(nonrepro), nonrepro[0][:600]))
        return reported


def replay_file(ctx, path, project=None):
    """bin/check <ID> --replay <file> for program-kind replays."""
    obj = json.load(open(path))
    if obj.get("kind") == "batch_context":
        print("re-run ./bin/check %s (the replay file documents a mismatch that needs the whole batch of programs in one process)" % ctx.pid)
        return 2
    prog = obj["program"]
    cfg = obj.get("cfg")
    r = proglib.run_vh(ctx, [prog], cfg=cfg)[prog["id"]]
    exp = set(tuple(x) for x in obj["expected"])
    got = project(r["diags"]) if project else proglib.keyset(r["diags"], cats=set(obj.get("cats") or []) or None)
    print(json.dumps({"expected": sorted(exp), "observed": sorted(got), "fail": r.get("fail"), "err": r.get("err")}))
    if r.get("err"):
        return 2
    if r.get("fail") or got != exp:
        print("VIOLATION property=%s replay=%s" % (ctx.pid, path))
        return 1
    return 0


def batch(programs, tag="s"):
    """Merge many programs into one module-sized program: scenario k lives under m/<tag>k/..."""
    pkgs = []
    index = {}
    for k, p in enumerate(programs):
        pre = "%s%d" % (tag, k)
        index[pre] = p["id"]
        for pk in p["pkgs"]:
            files = []
            for f in pk["files"]:
                src = f["src"].replace('"m/', '"m/%s/' % pre)
                if "@packageonly" in src:
                    # allow-lists name packages by import path: keep them pointing at the relocated packages
                    src = "\n".join(re.sub(r"(?<![\w/])m/", "m/%s/" % pre, l) if l.lstrip().startswith("// @packageonly") else l
                                    for l in src.split("\n"))
                files.append({"name": pre + "/" + f["name"], "src": src})
            pkgs.append({"path": "m/" + pre + pk["path"][1:], "name": pk["name"], "files": files})
    return {"id": "batch_" + tag, "pkgs": pkgs}, index


def split_batch(diags, index):
    out = {pid: [] for pid in index.values()}
    for d in diags:
        pre, _, rest = d["file"].partition("/")
        if pre in index:
            dd = dict(d)
            dd["file"] = rest
            out[index[pre]].append(dd)
    return out


def real_drivers(ctx, items, cats, rep, cfg=None, drivers=("binary", "vet"), chunk=150, project=None, env_cfg=None):
    """Replay items through the unmodified binary (standalone) and go vet -vettool, batched."""
    n = 0
    for lo in range(0, len(items), chunk):
        part = items[lo:lo + chunk]
        bp, index = batch([it[0] for it in part], tag="s")
        for drv in drivers:
            if drv == "binary":
                r = proglib.run_binary(ctx, bp, cfg=cfg, timeout=600, env_cfg=env_cfg)
            else:
                r = proglib.run_vet(ctx, bp, cfg=cfg, timeout=900, env_cfg=env_cfg)
            if r.get("fail"):
                # find the culprit(s) individually
                for it in part:
                    rr = proglib.run_binary(ctx, it[0], cfg=cfg, env_cfg=env_cfg) if drv == "binary" else proglib.run_vet(ctx, it[0], cfg=cfg, env_cfg=env_cfg)
                    if rr.get("fail"):
                        ctx.violation("%s driver failed: %s" % (drv, rr["fail"].split("\n")[0][:300]),
                                      {"kind": "program", "program": it[0], "expected": sorted(it[1]), "cats": sorted(cats or []),
                                       "cfg": cfg, "driver": drv, "fail": rr["fail"][:3000], "scenario": it[2]})
                        return n
                raise vlib.ToolError("%s driver failed on a batch but on none of its programs: %s" % (drv, r["fail"][:800]))
            by = split_batch(r["diags"], index)
            for prog, exp, meta in part:
                got = project(by[prog["id"]]) if project else proglib.keyset(by[prog["id"]], cats=cats)
                n += 1
                if got != exp:
                    # reproduce alone with the same driver
                    rr = proglib.run_binary(ctx, prog, cfg=cfg, env_cfg=env_cfg) if drv == "binary" else proglib.run_vet(ctx, prog, cfg=cfg, env_cfg=env_cfg)
                    got2 = project(rr["diags"]) if project else proglib.keyset(rr.get("diags") or [], cats=cats)
                    if got2 == exp and not rr.get("fail"):
                        raise vlib.ToolError("%s-driver mismatch did not reproduce alone for %s: %s vs %s"
                                             % (drv, prog["id"], sorted(got), sorted(exp)))
                    if len(ctx.violations) < 3:
                        ctx.violation("%s driver: expected %s, observed %s" % (drv, sorted(exp), sorted(got2)),
                                      {"kind": "program", "program": prog, "expected": sorted(exp), "observed": sorted(got2),
                                       "cats": sorted(cats or []), "cfg": cfg, "env": env_cfg, "driver": drv, "scenario": meta})
    return n


def codes_table_check(ctx, kinds):
    """Codes.tla (printed by MCCodes.tla) against src/codes/codes.go.  Mismatches of the given kinds are violations of the calling
    check's property, the others are notes.  kinds: subset of {"hier", "doc", "table"}."""
    import json
    import subprocess
    rc = ctx.tlc("MCCodes", "SPECIFICATION Spec\nCHECK_DEADLOCK FALSE\n", label="codes_table", collect_emit=False, count=False)
    with open(rc["out"]) as f:
        pc = subprocess.run([ctx.vh(), "codes-check"], stdin=f, stdout=subprocess.PIPE, stderr=subprocess.PIPE, text=True)
    if pc.returncode not in (0, 1):
        raise vlib.ToolError("codes-check failed: " + (pc.stderr or pc.stdout)[-600:])
    res = json.loads(pc.stdout)
    for m in res["mismatches"] or []:
        if m["kind"] in kinds:
            if len(ctx.violations) < 3:
                ctx.violation("code table: " + m["text"], {"kind": "codes", "mismatch": m})
        else:
            ctx.note("code table: " + m["text"])
    return res
