"""Concretisation of Scope.tla scenarios: the fixed layout with one diagnostic anchor per statement /
declaration of the scenario's kind, and an `// @ignore <list>` comment in the scenario's slot."""

D_SRC = """package d

// T is immutable and has a constructor.
// @immutable
// @constructor NewT
type T struct {
	X int
}

// TT is a test helper type.
// @testonly
type TT struct{ X int }

// PT is package-private to d.
// @packageonly
type PT struct{ X int }

type S struct{}

// TF is a test helper.
// @testonly
func TF(n int) int { return n }

// TM is a test helper.
// @testonly
func (s S) TM(n int) int { return n }

// PF is restricted.
// @packageonly
func PF(n int) int { return n }

// PM is restricted.
// @packageonly
func (s S) PM(n int) int { return n }
"""

# kind -> (single-line statement, (two-line first, two-line second), package-level declaration)
STMT = {
    "IMM01": ("p.X = %d", ("p.X = %d +", "%d"), "var g2 = func() int { gp.X = %d; return 0 }()"),
    "IMM01mid": ("_, p.X = 0, %d", ("_, p.X = 0,", "%d"), "var g2 = func() int { _, gp.X = 0, %d; return 0 }()"),
    "IMM03": ("p.X++", ("p.", "X++"), "var g2 = func() int { gp.X++; return %d }()"),
    "CTOR01": ("_ = d.T{X: %d}", ("_ = []d.T{{X: %d},", "{X: %d}}"), "var g2 = d.T{X: %d}"),
    "CTOR02": ("_ = new(d.T)", ("_ = new(", "d.T)"), "var g2 = new(d.T)"),
    "CTOR03": ("var v%d d.T", ("var v12a,", "v12b d.T"), "var g2 d.T"),
    "TONL01": ("_ = d.TT{X: %d}", ("_ = []d.TT{{X: %d},", "{X: %d}}"), "var g2 = d.TT{X: %d}"),
    "TONL02": ("_ = d.TF(%d)", ("_ = d.TF(%d) +", "d.TF(%d)"), "var g2 = d.TF(%d)"),
    "TONL03": ("_ = s.TM(%d)", ("_ = s.TM(", "%d)"), "var g2 = gs.TM(%d)"),
    "PKGO01": ("_ = d.PT{X: %d}", ("_ = []d.PT{{X: %d},", "{X: %d}}"), "var g2 = d.PT{X: %d}"),
    "PKGO02": ("_ = d.PF(%d)", ("_ = d.PF(%d) +", "d.PF(%d)"), "var g2 = d.PF(%d)"),
    "PKGO03": ("_ = s.PM(%d)", ("_ = s.PM(", "%d)"), "var g2 = gs.PM(%d)"),
}

CODE = {"IMM01mid": "IMM01"}
CATS = {"IMM": ["IMM01", "IMM02", "IMM03", "IMM04"], "CTOR": ["CTOR01", "CTOR02", "CTOR03"], "TONL": ["TONL01", "TONL02", "TONL03"],
        "PKGO": ["PKGO01", "PKGO02", "PKGO03"], "IMPL": ["IMPL01", "IMPL02", "IMPL03"]}
ALLCATS = ["CTOR", "IMM", "IMPL", "PKGO", "TONL"]


def cat_of(code):
    return code[:-2]


def list_text(lst, code):
    """Concrete text after `@ignore ` for an abstract list relative to the diagnostic code."""
    cat = cat_of(code)
    othercode = min(c for c in CATS[cat] if c != code)      # CHOOSE picks the TLC-minimal element: strings in sorted order
    othercat = min(c for c in ALLCATS if c != cat)
    toks, tail = [], ""
    for t in lst:
        if t == "exact":
            toks.append(code)
        elif t == "lower":
            toks.append(code.lower())
        elif t == "cat":
            toks.append(cat)
        elif t == "ALL":
            toks.append("ALL")
        elif t == "all_lower":
            toks.append("all")
        elif t == "othercode":
            toks.append(othercode)
        elif t == "othercat":
            toks.append(othercat)
        elif t == "unknown":
            toks.append("FOO1")
        elif t == "prefix":
            toks.append(code[:-1])
        elif t == "catprefix":
            toks.append(cat[:-1])
        elif t == "longer":
            toks.append(code + "1")
        elif t == "text":
            tail = " because of reasons"
        elif t == "text_exact":
            tail = " " + code   # separated by blanks only: free text, not a code
    return ", ".join(toks) + tail


def fmt(t, n):
    return t % ((n,) * t.count("%d")) if "%d" in t else t


def build_scope(sc, sid):
    kind = sc["kind"]
    code = CODE.get(kind, kind)
    one, two, decl = STMT[kind]
    slots = {sc["slot"], sc.get("slot2", "none")}
    comment = "// @ignore " + list_text(sc["list"], code)
    f1 = []
    pos = {}

    def row(text, anchor=None, trail=None):
        if trail and trail in slots:
            text = text + " " + comment
        f1.append(text)
        if anchor:
            pos[anchor] = ("u/f1.go", len(f1))

    def slotrow(name, indent=""):
        if name in slots:
            f1.append(indent + comment)

    if "F0d" in slots:
        # detached from the package clause by a blank line: still before it
        f1.append(comment)
        f1.append("")
    slotrow("F0")
    row("package u")
    row("")
    row('import "m/d"')
    row("")
    slotrow("D1")
    row("func fn1(p *d.T, s d.S) {", None, "TF1")
    slotrow("S11", "\t")
    row("\t" + fmt(one, 11), "a11", "T11")
    slotrow("S12", "\t")
    row("\t" + fmt(two[0], 12), "a12", "T12a")
    row("\t\t" + fmt(two[1], 13), "a12b", "T12b")
    slotrow("S13", "\t")
    row("\t" + fmt(one, 14), "a13", "T13")
    if kind == "CTOR03":
        row("\t_, _, _, _ = v11, v12a, v12b, v14")
    slotrow("E1", "\t")
    row("}", None, "TD1")
    row("")
    # a permanent directive that matches nothing, in front of a later declaration of the first file: every file of the
    # package has an @ignore of its own, and the first file's last directive belongs to its third declaration
    row("// @ignore ZZZ9")
    slotrow("D2")
    row(fmt(decl, 15), "a2", "TD2")
    row("")
    slotrow("D3")
    row("func fn3(p *d.T, s d.S) {")
    slotrow("S31", "\t")
    row("\t" + fmt(one, 16), "a31", "T31")
    if kind == "CTOR03":
        row("\t_ = v16")
    row("}")
    f2 = []
    if "G0" in slots:
        f2.append(comment)
    f2 += ["package u", "", 'import "m/d"', ""]
    delta = 0
    if sc.get("ld"):
        # generated code: everything below is renumbered (adjusted line = physical line + 100)
        f2.append("//line f2.go:%d" % (len(f2) + 2 + 100))
        delta = 100
    if "D4" in slots:
        f2.append(comment)
    f2.append("func fn4(p *d.T, s d.S) {" + ((" " + comment) if "TF4" in slots else ""))
    if "S41" in slots:
        f2.append("\t" + comment)
    f2.append("\t" + fmt(one, 17) + ((" " + comment) if "T41" in slots else ""))
    pos["b1"] = ("u/f2.go", len(f2) + delta)
    if kind == "CTOR03":
        f2.append("\t_ = v17")
    f2.append("}")
    f2.append("")
    # a function literal at package level: its body is a block of statements inside a declaration that is not a func declaration
    f2.append("var h6 = func(p *d.T, s d.S) {")
    if "S61" in slots:
        f2.append("\t" + comment)
    f2.append("\t" + fmt(one, 19) + ((" " + comment) if "T61" in slots else ""))
    pos["b61"] = ("u/f2.go", len(f2) + delta)
    f2.append("\t" + fmt(one, 20))
    pos["b62"] = ("u/f2.go", len(f2) + delta)
    if kind == "CTOR03":
        f2.append("\t_, _ = v19, v20")
    f2.append("}")
    f2.append("")
    if "D5" in slots:
        f2.append(comment)
    f2.append(fmt(decl, 18).replace("g2", "g5") + ((" " + comment) if "TD5" in slots else ""))
    pos["b5"] = ("u/f2.go", len(f2) + delta)
    h = ["package u", "", 'import "m/d"', "", "var gp *d.T", "", "var gs d.S", "", "var _ = gp", ""]
    prog = {"id": sid, "pkgs": [
        {"path": "m/d", "name": "d", "files": [{"name": "d/d.go", "src": D_SRC}]},
        {"path": "m/u", "name": "u", "files": [{"name": "u/f1.go", "src": "\n".join(f1) + "\n"},
                                                {"name": "u/f2.go", "src": "\n".join(f2) + "\n"},
                                                {"name": "u/zz_handles.go", "src": "\n".join(h) + "\n"}]}]}
    expect = {(pos[a][0], pos[a][1], code) for a in sc["expect"]}
    return prog, expect, pos
