"""Semantics-preserving layout transformations of generated Go sources (C12).

The generators emit every top-level declaration (with its doc comment) as a block of
consecutive lines, blocks separated by one blank line, no blank line inside a block.
A source file is therefore: package clause, optional import block, blocks.
"""
import random
import re
import subprocess

import vlib

IMPORT_PATS = (("\\bd\\.", '"m/d"'), ("\\bdd\\.", 'dd "m/d"'), ("\\bq\\.", '"m/q"'), ("\\bo\\.", '"m/o"'))


def split(src):
    lines = src.split("\n")
    pkgline = lines[0]
    i = 1
    while i < len(lines) and lines[i].strip() == "":
        i += 1
    if i < len(lines) and lines[i].startswith("import ("):
        while not lines[i].startswith(")"):
            i += 1
        i += 1
    elif i < len(lines) and lines[i].startswith("import "):
        i += 1
    blocks = []
    cur = []
    for l in lines[i:]:
        if l.strip() == "":
            if cur:
                blocks.append(cur)
                cur = []
        else:
            cur.append(l)
    if cur:
        blocks.append(cur)
    return pkgline, blocks


def join(pkgline, blocks, own_pkg_is_d):
    body = "\n\n".join("\n".join(b) for b in blocks)
    imps = []
    if not own_pkg_is_d:
        imps = [imp for pat, imp in IMPORT_PATS if re.search(pat, re.sub(r"//.*", "", body))]
    else:
        imps = [imp for pat, imp in IMPORT_PATS[2:] if re.search(pat, re.sub(r"//.*", "", body))]
    head = [pkgline, ""]
    if imps:
        head += ["import ("] + ["\t" + i for i in imps] + [")", ""]
    return "\n".join(head) + "\n" + body + "\n"


RENAME_RE = re.compile(r"\b([prvsxyulfgho])(\d{3})\b")


def rename(text):
    return RENAME_RE.sub(lambda m: "zz" + m.group(1) + m.group(2), text)


def gofmt_path():
    r = vlib.run(["go", "env", "GOROOT"], env=vlib.go_env())
    return r.stdout.strip() + "/bin/gofmt"


_GOFMT = None


def gofmt(src):
    global _GOFMT
    if _GOFMT is None:
        _GOFMT = gofmt_path()
    r = subprocess.run([_GOFMT], input=src, stdout=subprocess.PIPE, stderr=subprocess.PIPE, text=True)
    if r.returncode != 0:
        raise vlib.ToolError("gofmt failed: " + r.stderr[:500])
    return r.stdout


def transform(program, pkgpath, rng, kinds):
    """Apply the transformations named in kinds to the files of package pkgpath. Returns (new program, renamed?)."""
    import copy
    p = copy.deepcopy(program)
    pk = [x for x in p["pkgs"] if x["path"] == pkgpath][0]
    own_d = pk["name"] == "d"
    # the generated use-site files are f<k>.go (never the fixed declarations d.go / zz_handles.go)
    idx = [i for i, f in enumerate(pk["files"]) if re.search(r"/f\d+(_test)?\.go$", f["name"])]
    parts = {i: split(pk["files"][i]["src"]) for i in idx}
    renamed = False
    for k in kinds:
        if k == "perm":
            for i in idx:
                rng.shuffle(parts[i][1])
        elif k == "move" and len(idx) >= 1:
            src_i = rng.choice(idx)
            if parts[src_i][1]:
                regular = [i for i in idx if ("_test.go" in pk["files"][i]["name"]) == ("_test.go" in pk["files"][src_i]["name"])]
                if len(regular) < 2:
                    # create a new file of the same kind
                    name = pk["files"][src_i]["name"].replace(".go", "x.go").replace("_testx.go", "x_test.go")
                    pk["files"].append({"name": name, "src": ""})
                    ni = len(pk["files"]) - 1
                    idx.append(ni)
                    parts[ni] = (parts[src_i][0], [])
                    regular.append(ni)
                dst_i = rng.choice([i for i in regular if i != src_i])
                b = parts[src_i][1].pop(rng.randrange(len(parts[src_i][1])))
                parts[dst_i][1].insert(rng.randrange(len(parts[dst_i][1]) + 1), b)
        elif k == "comments":
            for i in idx:
                nb = []
                for b in parts[i][1]:
                    if rng.random() < 0.6:
                        nb.append(["// An ordinary remark %d." % rng.randrange(1000)])
                    out = []
                    for l in b:
                        out.append(l)
                        if l.endswith("{") and not l.startswith("type") and rng.random() < 0.5:
                            out.append("\t// a plain comment inside the body")
                    nb.append(out)
                parts[i] = (parts[i][0], nb)
        elif k == "rename":
            renamed = True
            for i in idx:
                parts[i] = (parts[i][0], [[rename(l) for l in b] for b in parts[i][1]])
            for j, f in enumerate(pk["files"]):
                if j not in idx:
                    f["src"] = rename(f["src"])
    for i in idx:
        src = join(parts[i][0], parts[i][1], own_d)
        if "blank" in kinds:
            src = src.replace("\n\n", "\n\n\n" if rng.random() < 0.5 else "\n\n")
        if "gofmt" in kinds:
            # deliberately mis-format, then let gofmt produce the canonical layout
            ugly = "\n".join(("   " + l.lstrip("\t") if l.startswith("\t") else l) + ("  " if rng.random() < 0.3 else "")
                             for l in src.replace("\n\n", "\n\n\n\n").split("\n"))
            src = gofmt(ugly)
        pk["files"][i]["src"] = src
    empty = {pk["files"][i]["name"] for i in idx if not parts[i][1]}
    pk["files"] = [f for f in pk["files"] if f["name"] not in empty]
    return p, renamed


def scatter_decls(program, pkgpath, fname, rng):
    """Distribute the top-level declarations (with their doc comments) of file fname of package pkgpath over one to three
    files whose names sort before, between and after the other files of the package, in a random order."""
    import copy
    p = copy.deepcopy(program)
    pk = [x for x in p["pkgs"] if x["path"] == pkgpath][0]
    fs = [f for f in pk["files"] if f["name"] == fname]
    if not fs:
        return p
    f = fs[0]
    pkgline, blocks = split(f["src"])
    m = re.search(r"^import \((.*?)^\)", f["src"], re.M | re.S)
    if m or re.search(r"^import ", f["src"], re.M):
        return p   # declarations that need imports of their own stay where they are
    d = fname.rsplit("/", 1)[0]
    names = ["%s/%s_decls.go" % (d, x) for x in rng.sample(["a0", "e9", "k5", "zy", "zzz"], rng.randrange(1, 4))]
    buckets = {n: [] for n in names}
    rng.shuffle(blocks)
    for b in blocks:
        buckets[rng.choice(names)].append(b)
    pk["files"] = [x for x in pk["files"] if x["name"] != fname]
    for n, bs in buckets.items():
        if bs:
            pk["files"].append({"name": n, "src": pkgline + "\n\n" + "\n\n".join("\n".join(b) for b in bs) + "\n"})
    pk["files"].sort(key=lambda x: x["name"])
    return p


def locate(program, pkgpath, text):
    """(file, line) of the unique line whose stripped content equals text."""
    hits = []
    for pk in program["pkgs"]:
        if pk["path"] != pkgpath:
            continue
        for f in pk["files"]:
            for n, l in enumerate(f["src"].split("\n"), 1):
                if l.strip() == text.strip():
                    hits.append((f["name"], n))
    return hits
