import json, sys, subprocess, os
props = {json.loads(l)["id"]: json.loads(l) for l in open('/verif/properties.jsonl') if l.strip()}
desc = json.load(open('/verif/seeded/descriptions.json'))
tmpl = open('/verif/seeded/PROMPT_TEMPLATE.txt').read()
suffix = sys.argv[1]
for pid in sys.argv[2:]:
    p = props[pid]
    tag = pid + suffix
    head = tmpl[:tmpl.index("THE PROPERTY TO BREAK:")].replace("C19c", tag)
    tail = tmpl[tmpl.index("YOUR TASK:"):tmpl.index("ADDITIONAL CONSTRAINT:")].replace("C19c", tag)
    anchors = p.get("anchors")
    files = ", ".join(anchors["files"]) + ". Mechanism: " + str(anchors.get("mechanism", ""))
    body = "THE PROPERTY TO BREAK:\n\nProperty %s: %s\n\nStatement: %s\n\nQuantifier: %s\n\nWhy the existing tests cannot settle it: %s\n\nFiles where the mechanism lives: %s\n\n" % (
        pid, p["title"], p["statement"], p["quantifier"]["text"], p["why_tests_cant"], files)
    used = [v for k, v in desc.items() if k.startswith(pid + "_")]
    add = "ADDITIONAL CONSTRAINT: do NOT re-use these ideas, which were already produced: " + "; ".join('"%s"' % u for u in used) + \
          ". Find changes of a clearly different kind (different function, different mechanism, different triggering input). Prefer changes in code paths that cooperate across packages, files or analyzers (facts, indexes, configuration, ignore scopes, reporting) over single-line regex edits. Do not read anything under /verif or /root/.claude (you are given everything you need here).\n"
    open('/tmp/seedprompt_%s.txt' % tag, 'w').write(head + body + tail + add)
    wt = '/tmp/wt_' + tag
    if not os.path.exists(wt):
        subprocess.run(['git', '-C', '/repo', 'worktree', 'add', '--detach', wt, 'HEAD'], check=True, stdout=subprocess.DEVNULL, stderr=subprocess.DEVNULL)
    os.makedirs(wt + '_demo', exist_ok=True); os.makedirs(wt + '_out', exist_ok=True)
    print(tag)
